---------------------------- MODULE Trace_ArrowBuf ----------------------------
(* C16 (and the layout assumptions of C13 / C14 / C17), code -> spec: the raw Arrow layout of real (derived) arrays,
   together with what the code's accessors returned on it:
     {K, off, len, bitmap, offs, values, flat, outer, isna}
   Verdict  "ok"       the layout is inside the modelled family, the accessor transcriptions of ArrowBuf reproduce the
                       code's outputs, and those are the abstract quantities of the decoded array;
            "outside"  the layout is not one the model covers (e.g. a null slot with a non-empty range);
            "departs"  the code's accessors returned something else than their transcription (model out of date);
            "mismatch" the accessors' outputs are not the abstract quantities of the array the layout denotes. *)
EXTENDS ArrowBuf, Json, IOUtils, TLC
TraceLog == ndJsonDeserialize(IOEnv.TRACE_FILE)
VARIABLES l, verdict

InModel(L) == /\ \A k \in 1..Len(L.offs) : Len(L.offs[k]) >= 1
              /\ Len(L.offs[1]) >= L.off + L.len + 1
              /\ (L.bitmap = <<>> \/ 8 * Len(L.bitmap) >= L.off + L.len)
              /\ \A i \in 1..L.len : (L.bitmap # <<>> /\ Bit(L.bitmap, L.off + i - 1) = 0)
                                      => At0(L.offs[1], L.off + i - 1) = At0(L.offs[1], L.off + i)
Judge(r) ==
    LET L == [off |-> r.off, len |-> r.len, bitmap |-> r.bitmap, offs |-> r.offs, values |-> r.values] IN
    IF ~InModel(L) THEN "outside"
    ELSE IF FlatValues(L) # r.flat \/ OuterOffsets(L) # r.outer \/ IsNull(L) # [i \in 1..Len(r.isna) |-> r.isna[i] = 1] THEN "departs"
    ELSE IF AccessorsExactFor(L, Decode(L), r.K) THEN "ok" ELSE "mismatch"
Init == \E i \in 1..Len(TraceLog) : l = i /\ verdict = Judge(TraceLog[i])
Next == UNCHANGED <<l, verdict>>
RecordOK == verdict \notin {"mismatch", "departs"}
=============================================================================
