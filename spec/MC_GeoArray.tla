------------------------------ MODULE MC_GeoArray ------------------------------
(* C16: every history of <= MaxOps derivation steps over every source array of <= N catalogue elements.
   State: the current element sequence `cur` (catalogue indices), the history, and the last result / error.
   A failed request leaves the array unchanged (and is a leaf: the replay checks the error class). *)
EXTENDS GeoArrayADT, TLC
CONSTANTS CatLen, N, MaxOps, Shard, NShards
VARIABLES src, cur, hist, last

Hash(s) == LET RECURSIVE H(_)
               H(i) == IF i > Len(s) THEN 0 ELSE (i * s[i] + 7 * H(i + 1)) % 100003
           IN H(1)
Ints == {-3, -2, -1, 0, 1, 2, 4}
SliceArgs == { <<NONEV, NONEV, -1>>, <<1, NONEV, 1>>, <<NONEV, 2, 1>>, <<1, 3, 1>>, <<NONEV, NONEV, 2>>, <<-1, NONEV, -2>>,
               <<-2, NONEV, 1>>, <<3, 1, -1>>, <<0, 0, 1>>, <<1, -1, 1>>, <<NONEV, NONEV, -2>>, <<5, NONEV, 1>> }
IdxArgs == { <<0>>, <<-1>>, <<1, 1, 0>>, <<2, 0>>, <<-1, -2>>, <<3>>, <<-4>>, <<0, 2, 1>>, <<>>,
             <<0, 0, 2>>, <<0, 2, 1, 3>>, <<1, 0, 0, 2, 1, 2>> }   \* permutations / repeats whose first and last span exactly n positions
FillArgs == { <<-1>>, <<0, -1>>, <<-1, 1, -1>>, <<-2>>, <<2>>, <<>>, <<-1, -1>> }
MaskArgs(n) == IF n = 0 THEN {<<>>} ELSE
               {[i \in 1..n |-> 1], [i \in 1..n |-> 0], [i \in 1..n |-> i % 2], [i \in 1..n |-> (i + 1) % 2]}
               \cup {[i \in 1..(n + 1) |-> 1], [i \in 1..n |-> IF i = 1 THEN 2 ELSE 1]}

Step(op, args, res) ==
    /\ hist' = Append(hist, [op |-> op, args |-> args])
    /\ last' = res
    /\ cur' = IF res.ok /\ op # "getitem" THEN res.seq ELSE cur
    /\ UNCHANGED src

Init == /\ src \in UNION {[1..k -> 1..CatLen] : k \in 0..N}
        /\ Hash(src) % NShards = Shard
        /\ cur = src /\ hist = <<>> /\ last = OK(src)
Next == /\ Len(hist) < MaxOps /\ last.ok
        /\ \/ \E i \in Ints : Step("getitem", <<i>>, GetItem(cur, i))
           \/ \E a \in SliceArgs : Step("slice", a, Slice(cur, a[1], a[2], a[3]))
           \/ \E m \in MaskArgs(Len(cur)) : Step("mask", m, Mask(cur, m))
           \/ \E ix \in IdxArgs : Step("intidx", ix, TakeNoFill(cur, ix))
           \/ \E ix \in IdxArgs : Step("take", ix, TakeNoFill(cur, ix))
           \/ \E ix \in FillArgs : Step("takefill", ix, TakeFill(cur, ix))
           \/ \E k \in {-2, -1, 1, 3} : Step("shift", <<k>>, Shift(cur, k))
           \/ Step("repeat", <<2>>, Repeat(cur, 2))
           \/ Step("dropna", <<>>, DropNa(cur))
           \/ Len(src) >= 1 /\ src[1] # NullIx /\ Step("fillna", <<src[1]>>, FillNa(cur, src[1]))       \* the fill value is the source's first element
           \/ Len(src) >= 1 /\ \E loc \in {0, 1, -1, 4} : Step("insert", <<loc, src[1]>>, Insert(cur, loc, src[1]))
           \/ \E P \in {{0}, {-1, 0}, {1}, {3}} : Step("delete", P, Delete(cur, P))
           \/ Step("concat_self", <<>>, Concat(cur, cur))
           \/ Step("concat_src", <<>>, Concat(cur, src))
           \/ \E o \in {"copy", "pickle", "iter", "series_iloc_all", "parquet"} : Step(o, <<>>, Same(cur))

(* P-level sanity: a successful derivation never invents elements; fill only adds the missing element *)
NoInvention == last.ok => \A k \in 1..Len(last.seq) : last.seq[k] = NullIx \/ \E j \in 1..Len(src) : src[j] = last.seq[k]
=============================================================================
