--------------------------------- MODULE World ---------------------------------
(* The growing backbone: one geo frame travelling through the public operations of the library, at P level.
   The state is what a user can observe - the sequence of rows (identity + catalogue element of kind Kind), the container it
   currently lives in (pandas frame, Dask frame, parquet dataset read back as a Dask frame), whether a spatial index has been
   built - plus the history.  Transformations change the rows exactly as the properties say (C16 row selection, C09 / C10
   packing = a permutation sorted along the curve, C11 round trips = identity, C06 Dask = the concatenated frame); observations
   append the value P requires (C04 cx, C13 bounds, C05 sjoin, C03 index queries) to the history.  TLC explores it exhaustively
   to a small depth and by random simulation to depth 10-12 (cross-feature histories such as "cx on the frame computed from a
   parquet round trip of a filtered, packed slice"); every behaviour is replayed on the real objects and every observation
   compared.  Order: pandas operations keep row order; after a packing step the order is the Hilbert order, which the model
   does not fix beyond ties (observations are compared as sets of row identities with their values). *)
EXTENDS GeoFrameOps, SJoin

CONSTANTS Kind1, Elems1, Kind2, Elems2, RKind, RElems, N, MaxOps, Bias
VARIABLES rows, form, indexed, ordered, active, hist

vars == <<rows, form, indexed, ordered, active, hist>>
(* a row is <<identity, element of the first geometry column, element of the second>>; `active` (1 or 2) is the geometry column every
   spatial operation must use (C20); Kind / ElemOf are the kind and the element of a row in the active column *)
Kind == IF active = 1 THEN Kind1 ELSE Kind2
ElemOf(r) == IF active = 1 THEN Elems1[r[2]] ELSE Elems2[r[3]]
ElemsOfRows(rs) == [i \in 1..Len(rs) |-> ElemOf(rs[i])]
Ids(rs) == [i \in 1..Len(rs) |-> rs[i][1]]
Log(op, a, b, val) == hist' = Append(hist, [op |-> op, a |-> a, b |-> b, val |-> val])
NoVal == << >>

(* ---- transformations ---- *)
SliceRows(a, b) == /\ form = "pandas" /\ rows' = SubSeq(rows, a + 1, b) /\ indexed' = FALSE
                   /\ Log("iloc", a, b, NoVal) /\ UNCHANGED form /\ ordered /\ UNCHANGED <<ordered, active>>
Derived == IF form = "dataset" THEN "dask" ELSE form      \* a row selection of a re-read dataset is no longer what is stored
KeepIds(S) == /\ rows' = SelectSeq(rows, LAMBDA r : r[1] \in S) /\ indexed' = FALSE
              /\ Log("filter", S, 0, NoVal) /\ form' = Derived /\ UNCHANGED <<ordered, active>>
ReverseRows == /\ form = "pandas" /\ rows' = [i \in 1..Len(rows) |-> rows[Len(rows) + 1 - i]] /\ indexed' = FALSE
               /\ Log("reverse", 0, 0, NoVal) /\ UNCHANGED form /\ ordered /\ UNCHANGED <<ordered, active>>
BuildIndex(ps) == /\ form = "pandas" /\ ~indexed /\ indexed' = TRUE /\ Log("build_sindex", ps, 0, NoVal) /\ UNCHANGED <<rows, form>> /\ UNCHANGED <<ordered, active>>
ToDask(k) == /\ form = "pandas" /\ Len(rows) >= 1 /\ form' = "dask" /\ indexed' = FALSE
             /\ Log("from_pandas", k, 0, NoVal) /\ UNCHANGED rows /\ ordered' = FALSE /\ UNCHANGED active     \* from_pandas sorts by the index labels
Compute == /\ form \in {"dask", "dataset"} /\ form' = "pandas" /\ Log("compute", 0, 0, NoVal) /\ UNCHANGED <<rows, indexed>> /\ UNCHANGED <<ordered, active>>
(* pack_partitions(k, p): same rows, Hilbert order (order not tracked: see header); needs at least two distinct keys when k > 1,
   so the model only packs into k = 1 .. (number of rows with pairwise different bounds centres) *)
Pack(k) == /\ form = "dask" /\ Len(rows) >= 2 /\ Log("pack_partitions", k, 0, NoVal) /\ UNCHANGED <<rows, form, indexed>> /\ ordered' = FALSE /\ UNCHANGED active                  \* Hilbert order, not fixed by the model beyond ties: positional operations wait for a sort
ToParquet == /\ form \in {"pandas", "dask"} /\ Len(rows) >= 1
             /\ form' = IF form = "pandas" THEN "pandas" ELSE "dataset"
             /\ Log("parquet_roundtrip", 0, 0, NoVal) /\ UNCHANGED <<rows, indexed, ordered>>
             /\ active' = 1                         \* a re-read frame starts with the first geometry column active (C20)
PackToParquet(k) == /\ form = "dask" /\ Len(rows) >= 2 /\ form' = "dataset"
                    /\ Log("pack_partitions_to_parquet", k, 0, NoVal) /\ UNCHANGED <<rows, indexed>> /\ ordered' = FALSE /\ active' = 1

(* more row-preserving / row-reordering transformations (C16 / C20: the frame stays a geo frame with the same rows) *)
SortDesc == /\ form = "pandas" /\ rows' = SortSeq(rows, LAMBDA a, b : a[1] > b[1]) /\ indexed' = FALSE
            /\ Log("sort_desc", 0, 0, NoVal) /\ UNCHANGED form /\ ordered' = TRUE /\ UNCHANGED active
Rotate(k) == /\ form = "pandas" /\ Len(rows) > k /\ k >= 1
             /\ rows' = SubSeq(rows, k + 1, Len(rows)) \o SubSeq(rows, 1, k) /\ indexed' = FALSE
             /\ Log("concat_rotate", k, 0, NoVal) /\ UNCHANGED form /\ ordered /\ UNCHANGED <<ordered, active>>      \* pd.concat([obj.iloc[k:], obj.iloc[:k]])
Same(op) == /\ (op \in {"copy", "pickle"} => form = "pandas") /\ (op \in {"persist", "repartition"} => form \in {"dask", "dataset"})
            /\ Log(op, 0, 0, NoVal) /\ UNCHANGED <<rows, form, indexed>> /\ UNCHANGED <<ordered, active>>
SetGeometry == /\ form \in {"pandas", "dask"} /\ active' = 3 - active /\ indexed' = FALSE
               /\ Log("set_geometry", 3 - active, 0, NoVal) /\ UNCHANGED <<rows, form, ordered>>
(* cx as a transformation: continue with the selected rows (cx of cx, cx then pack, ...) *)
CxSelect(key) ==
    /\ ~Unspecified(Kind, ElemsOfRows(rows), key)
    /\ LET sel == PCx(Kind, ElemsOfRows(rows), key) IN
       /\ Len(sel) >= 1
       /\ rows' = [j \in 1..Len(sel) |-> rows[sel[j]]]
    /\ indexed' = FALSE /\ Log("cx_select", key, 0, NoVal) /\ form' = Derived /\ UNCHANGED <<ordered, active>>

(* ---- observations: the value P requires, as a set of <<row id, value>> / a value ---- *)
ObsCx(key) ==
    /\ ~Unspecified(Kind, ElemsOfRows(rows), key)
    /\ LET sel == PCx(Kind, ElemsOfRows(rows), key) IN
       Log("cx", key, 0, {rows[sel[j]][1] : j \in 1..Len(sel)})
    /\ UNCHANGED <<rows, form, indexed>> /\ UNCHANGED <<ordered, active>>
ObsTotalBounds == /\ Log("total_bounds", 0, 0, TotalBounds(ElemsOfRows(rows))) /\ UNCHANGED <<rows, form, indexed>> /\ UNCHANGED <<ordered, active>>
ObsBounds == /\ Log("bounds", 0, 0, {<<rows[i][1], Bounds(ElemOf(rows[i]))>> : i \in 1..Len(rows)}) /\ UNCHANGED <<rows, form, indexed>> /\ UNCHANGED <<ordered, active>>
ObsSJoin(how) ==
    /\ Kind = "point" /\ form \in {"pandas", "dask"} /\ ~Undecided(ElemsOfRows(rows), RKind, RElems)
    /\ LET ps == PairSet(how, Len(rows), Len(RElems), Hit(ElemsOfRows(rows), RKind, RElems)) IN
       Log("sjoin", how, 0, {<<IF p[1] = 0 THEN 0 ELSE rows[p[1]][1], p[2]>> : p \in ps})
    /\ UNCHANGED <<rows, form, indexed>> /\ UNCHANGED <<ordered, active>>
(* C01 / C02: intersects_bounds per row; C03: the spatial index answers with the rows whose bounds overlap the box;
   C14: twice the area and the squared segment lengths (the replay sums the roots); C12: a bounds= re-read of a dataset
   returns whole partitions that contain at least the intersecting rows *)
ObsHits(B) == /\ TRUE = (\A i \in 1..Len(rows) : BoxHit(Kind, ElemOf(rows[i]), B) # "U")
              /\ Log("intersects_bounds", B, 0, {rows[i][1] : i \in {j \in 1..Len(rows) : BoxHit(Kind, ElemOf(rows[j]), B) = "T"}})
              /\ UNCHANGED <<rows, form, indexed>> /\ UNCHANGED <<ordered, active>>
ObsIndex(B) == /\ form = "pandas" /\ Len(rows) >= 1
               /\ LET bs == [i \in 1..Len(rows) |-> Bounds(ElemOf(rows[i]))] IN
                  Log("sindex_intersects", B, 0, {rows[i + 1][1] : i \in BruteIntersects(bs, B)})
               /\ UNCHANGED <<rows, form, indexed>> /\ UNCHANGED <<ordered, active>>
(* (guards are written `TRUE = (...)` so that TLC evaluates them as values: a disjunction at action level is split into branches and
   its later disjuncts are evaluated even when an earlier one holds) *)
ObsMeasure == /\ TRUE = (\A i \in 1..Len(rows) : ElemOf(rows[i]).null \/ Kind \notin PolyKinds \/ RingsClosed(ElemOf(rows[i]).g))
              /\ Log("measure", 0, 0, {<<rows[i][1], Area2(Kind, ElemOf(rows[i])), SqLens(Kind, ElemOf(rows[i]))>> :
                                        i \in {j \in 1..Len(rows) : ~ElemOf(rows[j]).null}})
              /\ UNCHANGED <<rows, form, indexed>> /\ UNCHANGED <<ordered, active>>
ObsReadBounds(B) == /\ form = "dataset"
                    /\ TRUE = (\A i \in 1..Len(rows) : BoxHit(Kind, ElemOf(rows[i]), B) # "U")
                    /\ Log("read_bounds", B, 0, {rows[i][1] : i \in {j \in 1..Len(rows) : BoxHit(Kind, ElemOf(rows[j]), B) = "T"}})
                    /\ UNCHANGED <<rows, form, indexed>> /\ UNCHANGED <<ordered, active>>
ObsIds == /\ Log("ids", 0, 0, {rows[i][1] : i \in 1..Len(rows)}) /\ UNCHANGED <<rows, form, indexed>> /\ UNCHANGED <<ordered, active>>

Keys == { << <<OMIT, OMIT, 0>>, <<OMIT, OMIT, 0>> >>, << <<1, 3, 0>>, <<1, 3, 0>> >>, << <<3, 1, 0>>, <<OMIT, 3, 0>> >>,
          << <<-1, 1, 0>>, <<-1, 5, 0>> >>, << <<3, 5, 0>>, <<0, 4, 0>> >>, << <<5, OMIT, 0>>, <<OMIT, OMIT, 0>> >> }
Boxes == { <<1, 1, 3, 3>>, <<0, 0, 4, 4>>, <<3, 0, 5, 4>>, <<-1, -1, 1, 5>>, <<2, 1, 3, 2>> }
Init == /\ \E rs \in [1..N -> 1..Len(Elems1)], sh \in 0..(Len(Elems2) - 1) :
              rows = [i \in 1..N |-> <<i, rs[i], ((i + sh) % Len(Elems2)) + 1>>]
        /\ active = 1 /\ form = "pandas" /\ indexed = FALSE /\ ordered = TRUE /\ hist = <<>>
Next == /\ Len(hist) < MaxOps
        /\ \/ \E a \in 0..Len(rows), b \in 0..Len(rows) : a < b /\ (a > 0 \/ b < Len(rows)) /\ SliceRows(a, b)
           \/ \E m \in {2, 3} : KeepIds({i \in 1..N : i % m # 0})
           \/ ReverseRows
           \/ \E ps \in {1, 2, 3} : BuildIndex(ps)
           \/ \E k \in {1, 2, 3} : ToDask(k)
           \/ Compute
           \/ \E k \in {1, 2} : Pack(k)
           \/ ToParquet
           \/ \E k \in {1, 3} : PackToParquet(k)
           \/ SetGeometry
           \/ SortDesc \/ \E k \in {1, 2} : Rotate(k)
           \/ \E op \in {"copy", "pickle", "persist", "repartition"} : Same(op)
           \/ \E key \in Keys : CxSelect(key)
           \/ \E B \in Boxes : ObsHits(B) \/ ObsIndex(B) \/ ObsReadBounds(B)
           \/ ObsMeasure
           \/ \E key \in Keys : ObsCx(key)
           \/ ObsTotalBounds \/ ObsBounds \/ ObsIds
           \/ \E how \in {"inner", "left"} : ObsSJoin(how)
(* random simulation picks successors uniformly, so the many-parameter pandas observations dominate; Bias = "dask" starts every
   behaviour with from_pandas so that the Dask / parquet actions are reached early (same state space, different sampling) *)
NextB == IF Bias = "dask" /\ hist = <<>> THEN \E k \in {1, 2, 3} : ToDask(k) ELSE Next
Spec == Init /\ [][NextB]_vars
(* P-level sanity checked on every state: row identities stay unique and are never invented *)
RowsSane == /\ \A i, j \in 1..Len(rows) : i # j => rows[i][1] # rows[j][1]
            /\ \A i \in 1..Len(rows) : rows[i][1] \in 1..N
=============================================================================
