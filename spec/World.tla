--------------------------------- MODULE World ---------------------------------
(* The growing backbone: one geo frame travelling through the public operations of the library, at P level.
   The state is what a user can observe - the sequence of rows (identity + catalogue element of kind Kind), the container it
   currently lives in (pandas frame, Dask frame, parquet dataset read back as a Dask frame), whether a spatial index has been
   built - plus the history.  Transformations change the rows exactly as the properties say (C16 row selection, C09 / C10
   packing = a permutation sorted along the curve, C11 round trips = identity, C06 Dask = the concatenated frame); observations
   append the value P requires (C04 cx, C13 bounds, C05 sjoin, C03 index queries) to the history.  TLC explores it exhaustively
   to a small depth and by random simulation to depth 10-12 (cross-feature histories such as "cx on the frame computed from a
   parquet round trip of a filtered, packed slice"); every behaviour is replayed on the real objects and every observation
   compared.  Order: pandas operations keep row order; after a packing step the order is the Hilbert order, which the model
   does not fix beyond ties (observations are compared as sets of row identities with their values). *)
EXTENDS GeoFrameOps, SJoin

CONSTANTS Kind, Elems, RKind, RElems, N, MaxOps
VARIABLES rows, form, indexed, hist

vars == <<rows, form, indexed, hist>>
ElemsOfRows(rs) == [i \in 1..Len(rs) |-> Elems[rs[i][2]]]
Ids(rs) == [i \in 1..Len(rs) |-> rs[i][1]]
Log(op, a, b, val) == hist' = Append(hist, [op |-> op, a |-> a, b |-> b, val |-> val])
NoVal == << >>

(* ---- transformations ---- *)
SliceRows(a, b) == /\ form = "pandas" /\ rows' = SubSeq(rows, a + 1, b) /\ indexed' = FALSE
                   /\ Log("iloc", a, b, NoVal) /\ UNCHANGED form
KeepIds(S) == /\ rows' = SelectSeq(rows, LAMBDA r : r[1] \in S) /\ indexed' = FALSE
              /\ Log("filter", S, 0, NoVal) /\ UNCHANGED form
ReverseRows == /\ form = "pandas" /\ rows' = [i \in 1..Len(rows) |-> rows[Len(rows) + 1 - i]] /\ indexed' = FALSE
               /\ Log("reverse", 0, 0, NoVal) /\ UNCHANGED form
BuildIndex(ps) == /\ form = "pandas" /\ ~indexed /\ indexed' = TRUE /\ Log("build_sindex", ps, 0, NoVal) /\ UNCHANGED <<rows, form>>
ToDask(k) == /\ form = "pandas" /\ Len(rows) >= 1 /\ form' = "dask" /\ indexed' = FALSE
             /\ Log("from_pandas", k, 0, NoVal) /\ UNCHANGED rows
Compute == /\ form \in {"dask", "dataset"} /\ form' = "pandas" /\ Log("compute", 0, 0, NoVal) /\ UNCHANGED <<rows, indexed>>
(* pack_partitions(k, p): same rows, Hilbert order (order not tracked: see header); needs at least two distinct keys when k > 1,
   so the model only packs into k = 1 .. (number of rows with pairwise different bounds centres) *)
Pack(k) == /\ form = "dask" /\ Len(rows) >= 2 /\ Log("pack_partitions", k, 0, NoVal) /\ UNCHANGED <<rows, form, indexed>>
ToParquet == /\ form \in {"pandas", "dask"} /\ Len(rows) >= 1
             /\ form' = IF form = "pandas" THEN "pandas" ELSE "dataset"
             /\ Log("parquet_roundtrip", 0, 0, NoVal) /\ UNCHANGED <<rows, indexed>>
PackToParquet(k) == /\ form = "dask" /\ Len(rows) >= 2 /\ form' = "dataset"
                    /\ Log("pack_partitions_to_parquet", k, 0, NoVal) /\ UNCHANGED <<rows, indexed>>

(* ---- observations: the value P requires, as a set of <<row id, value>> / a value ---- *)
ObsCx(key) ==
    /\ ~Unspecified(Kind, ElemsOfRows(rows), key)
    /\ LET sel == PCx(Kind, ElemsOfRows(rows), key) IN
       Log("cx", key, 0, {rows[sel[j]][1] : j \in 1..Len(sel)})
    /\ UNCHANGED <<rows, form, indexed>>
ObsTotalBounds == /\ Log("total_bounds", 0, 0, TotalBounds(ElemsOfRows(rows))) /\ UNCHANGED <<rows, form, indexed>>
ObsBounds == /\ Log("bounds", 0, 0, {<<rows[i][1], Bounds(Elems[rows[i][2]])>> : i \in 1..Len(rows)}) /\ UNCHANGED <<rows, form, indexed>>
ObsSJoin(how) ==
    /\ Kind = "point" /\ form \in {"pandas", "dask"} /\ ~Undecided(ElemsOfRows(rows), RKind, RElems)
    /\ LET ps == PairSet(how, Len(rows), Len(RElems), Hit(ElemsOfRows(rows), RKind, RElems)) IN
       Log("sjoin", how, 0, {<<IF p[1] = 0 THEN 0 ELSE rows[p[1]][1], p[2]>> : p \in ps})
    /\ UNCHANGED <<rows, form, indexed>>
ObsIds == /\ Log("ids", 0, 0, {rows[i][1] : i \in 1..Len(rows)}) /\ UNCHANGED <<rows, form, indexed>>

Keys == { << <<OMIT, OMIT, 0>>, <<OMIT, OMIT, 0>> >>, << <<1, 3, 0>>, <<1, 3, 0>> >>, << <<3, 1, 0>>, <<OMIT, 3, 0>> >>,
          << <<-1, 1, 0>>, <<-1, 5, 0>> >>, << <<3, 5, 0>>, <<0, 4, 0>> >>, << <<5, OMIT, 0>>, <<OMIT, OMIT, 0>> >> }
Init == /\ \E rs \in [1..N -> 1..Len(Elems)] : rows = [i \in 1..N |-> <<i, rs[i]>>]
        /\ form = "pandas" /\ indexed = FALSE /\ hist = <<>>
Next == /\ Len(hist) < MaxOps
        /\ \/ \E a \in 0..Len(rows), b \in 0..Len(rows) : a < b /\ (a > 0 \/ b < Len(rows)) /\ SliceRows(a, b)
           \/ \E m \in {2, 3} : KeepIds({i \in 1..N : i % m # 0})
           \/ ReverseRows
           \/ \E ps \in {1, 2, 3} : BuildIndex(ps)
           \/ \E k \in {1, 2, 3} : ToDask(k)
           \/ Compute
           \/ \E k \in {1, 2} : Pack(k)
           \/ ToParquet
           \/ \E k \in {1, 3} : PackToParquet(k)
           \/ \E key \in Keys : ObsCx(key)
           \/ ObsTotalBounds \/ ObsBounds \/ ObsIds
           \/ \E how \in {"inner", "left"} : ObsSJoin(how)
Spec == Init /\ [][Next]_vars
(* P-level sanity checked on every state: row identities stay unique and are never invented *)
RowsSane == /\ \A i, j \in 1..Len(rows) : i # j => rows[i][1] # rows[j][1]
            /\ \A i \in 1..Len(rows) : rows[i][1] \in 1..N
=============================================================================
