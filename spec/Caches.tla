-------------------------------- MODULE Caches --------------------------------
(* C18: the lazily built caches that client threads share (GeometryArray._sindex, HilbertRtree._numba_rtree,
   DaskGeoSeries._partition_bounds / _partition_sindex).  All follow one pattern:

       if cache is None:            Check      (read the attribute)
           v = build(A)             Build      (pure function of the object's elements; takes time; thread-local)
           cache = v                Assign     (ONE attribute store of a complete value - atomic under the GIL)
       return cache                 Use        (read the attribute again)

   Threads interleave arbitrarily between these steps; several threads may build.  The property: every Use observes a
   COMPLETE value equal to build(A) - duplicated work is allowed, torn or foreign values are not.

   Pattern = "single_store" is the pattern above (what the code does).  Pattern = "two_field" is a memo that stores a key and,
   in a second store, the value computed for it (the shape of cache that is NOT safe: another thread can pair its key with
   this thread's value) - kept as the negative control: UseSeesOwnAnswer must FAIL for it. *)
EXTENDS Integers, FiniteSets

CONSTANTS Threads, Pattern, Keys            \* Keys: the queries threads may ask (two_field); ignored for single_store
VARIABLES cache, ckey, pc, local, want, used

vars == <<cache, ckey, pc, local, want, used>>
NONE == -1
Build(k) == 100 + k                         \* the value that belongs to key k (single_store: k = 0, the object's elements)

Init == /\ cache = NONE /\ ckey = NONE
        /\ pc = [t \in Threads |-> "idle"] /\ local = [t \in Threads |-> NONE] /\ want = [t \in Threads |-> NONE]
        /\ used = {}
Start(t, k) == /\ pc[t] = "idle" /\ want' = [want EXCEPT ![t] = k] /\ pc' = [pc EXCEPT ![t] = "check"]
               /\ UNCHANGED <<cache, ckey, local, used>>
Check(t) == /\ pc[t] = "check"
            /\ IF Pattern = "single_store"
               THEN pc' = [pc EXCEPT ![t] = IF cache = NONE THEN "build" ELSE "use"]
               ELSE pc' = [pc EXCEPT ![t] = IF ckey = want[t] /\ cache # NONE THEN "use" ELSE "build"]
            /\ UNCHANGED <<cache, ckey, local, want, used>>
BuildStep(t) == /\ pc[t] = "build" /\ local' = [local EXCEPT ![t] = Build(want[t])]
                /\ pc' = [pc EXCEPT ![t] = IF Pattern = "single_store" THEN "assign" ELSE "storekey"]
                /\ UNCHANGED <<cache, ckey, want, used>>
Assign(t) == /\ pc[t] = "assign" /\ cache' = local[t] /\ pc' = [pc EXCEPT ![t] = "use"]
             /\ UNCHANGED <<ckey, local, want, used>>
StoreKey(t) == /\ pc[t] = "storekey" /\ ckey' = want[t] /\ pc' = [pc EXCEPT ![t] = "assign"]      \* two_field: key first ..
               /\ UNCHANGED <<cache, local, want, used>>
Use(t) == /\ pc[t] = "use" /\ used' = used \cup {<<t, want[t], cache>>} /\ pc' = [pc EXCEPT ![t] = "idle"]
          /\ UNCHANGED <<cache, ckey, local, want>>
Next == \E t \in Threads : \/ \E k \in (IF Pattern = "single_store" THEN {0} ELSE Keys) : Start(t, k)
                           \/ Check(t) \/ BuildStep(t) \/ Assign(t) \/ StoreKey(t) \/ Use(t)
Spec == Init /\ [][Next]_vars

(* every Use returns the complete value that belongs to what the thread asked for *)
UseSeesOwnAnswer == \A u \in used : u[3] = Build(u[2])
(* the cache never holds anything but a complete built value *)
CacheComplete == cache = NONE \/ \E k \in Keys \cup {0} : cache = Build(k)
=============================================================================
