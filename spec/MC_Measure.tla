------------------------------ MODULE MC_Measure ------------------------------
(* C13 / C14 / C15: one state per element of a family; `expect` holds the P-level quantities that the
   replay compares with the real arrays; the invariants confront the transcriptions (D) with P and check
   the theorems C15 states about P itself. *)
EXTENDS GeomFamilies, SPMeasureImpl, TLC

CONSTANTS Shard, NShards
VARIABLES kind, elem, expect

ASSUME PrintT(<<"NELEMS", Len(ElemSeq)>>)
(* every shell has non-zero area and every hole is wound opposite to its shell (either way round) *)
HolesOpposite(g) == \A p \in 1..Len(g) : Len(g[p]) >= 1 =>
                       /\ RingArea2(g[p][1]) # 0
                       /\ \A r \in 2..Len(g[p]) : Sign(RingArea2(g[p][r])) = -Sign(RingArea2(g[p][1]))

Init == \E i \in 1..Len(ElemSeq) :
          /\ i % NShards = Shard
          /\ kind = ElemSeq[i][1]
          /\ elem = ElemSeq[i][2]
          /\ expect = [ bounds   |-> Bounds(ElemSeq[i][2]),
                        area2    |-> Area2(ElemSeq[i][1], ElemSeq[i][2]),
                        closed   |-> ElemSeq[i][2].null \/ RingsClosed(ElemSeq[i][2].g),
                        sqlens   |-> IF ElemSeq[i][2].null THEN <<>> ELSE SqLens(ElemSeq[i][1], ElemSeq[i][2]),
                        oriented |-> IF ElemSeq[i][1] \in PolyKinds THEN Oriented(ElemSeq[i][2]) ELSE NULL,
                        boundary |-> IF ElemSeq[i][1] \in PolyKinds THEN Boundary(ElemSeq[i][2]) ELSE NULL,
                        oarea2   |-> IF ElemSeq[i][1] \in PolyKinds THEN Area2(ElemSeq[i][1], Oriented(ElemSeq[i][2])) ELSE 0,
                        opposite |-> ElemSeq[i][1] \in PolyKinds /\ ~ElemSeq[i][2].null /\ HolesOpposite(ElemSeq[i][2].g) ]
Next == UNCHANGED <<kind, elem, expect>>

DesignBounds   == ImplBounds(elem) = expect.bounds
DesignArea     == (kind \in PolyKinds /\ expect.closed) => ImplElementArea2(kind, elem) = expect.area2
DesignLength   == ImplElementSqLens(kind, elem) = expect.sqlens
DesignOriented == kind \in PolyKinds => ImplOriented(elem) = expect.oriented
Theorems == kind \in PolyKinds => /\ OrientIdempotent(elem) /\ OrientKeepsShape(elem) /\ OrientSigns(elem)
                                  /\ (expect.closed => Area2(kind, Oriented(elem)) =
                                         SumSeq([r \in 1..Len(AllRings(elem.g)) |->
                                                  LET a == RingArea2(AllRings(elem.g)[r])
                                                      shell == \E p \in 1..Len(elem.g) : r = 1 + SumSeq([q \in 1..(p - 1) |-> Len(elem.g[q])])
                                                  IN IF shell THEN Abs(a) ELSE -Abs(a)]))
                                  /\ SqLens(kind, Oriented(elem)) \in {s \in {SqLens(kind, Oriented(elem))} : Len(s) = Len(SqLens(kind, elem))}
=============================================================================
