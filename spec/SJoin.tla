-------------------------------- MODULE SJoin --------------------------------
(* C05: spatial join of a point frame (left) with a frame of any geometry kind (right).
   Frames are sequences of rows; a row carries a catalogue geometry (index into LCat / RCat), an index label
   and two ordinary columns, one of which may clash by name with the other side's.
       left row   [g, lab, a, s]      columns "a" and (clash: "s" | no clash: "sl"), active geometry "geometry"
       right row  [g, lab, b, s]      columns "b" and (clash: "s" | no clash: "sr"), active geometry "geometry"
   P level  Join(L, R, how): the result as a BAG of row records (a sequence in canonical order is not promised by
            the property, the replay compares bags), the column names and the index name.
   D level  Pairs(L, R): what sjoin.py computes - for every right row the candidates from the left R-tree queried
            with the right row's bounds, filtered by the exact point test - must equal the set Hit of P. *)
EXTENDS SPMeasure, SPGeomImpl, RTree

NA == -999
Hit(LG, RK, RG) == {<<l, r>> \in (1..Len(LG)) \X (1..Len(RG)) :
                       ~LG[l].null /\ PointHit(LG[l].g[1][1][1], RK, RG[r]) = "T"}
Undecided(LG, RK, RG) == \E l \in 1..Len(LG), r \in 1..Len(RG) :
                       ~LG[l].null /\ PointHit(LG[l].g[1][1][1], RK, RG[r]) = "U"

(* ---- D: candidate generation + exact filter, as _sjoin_pandas_pandas does it ---- *)
DPairs(LG, RK, RG, perm, ps) ==
    LET lb == [i \in 1..Len(LG) |-> Bounds(LG[i])] IN
    UNION { LET q == Bounds(RG[r])
                cand == IF IsNaNBox(q) THEN <<>>                 \* rows with undefined bounds are skipped (commit "fix: sjoin skips ...")
                        ELSE Query(lb, perm, ps, q, TRUE).intersects
            IN {<<cand[k] + 1, r>> : k \in {j \in 1..Len(cand) :
                                              ImplPointHit(LG[cand[j] + 1].g[1][1][1], RK, RG[r]) = "T"}}
          : r \in 1..Len(RG) }

(* ---- P: the joined table ---- *)
SufName(c, suf) == CASE c = "s" /\ suf = "left"  -> "s_left"  [] c = "s" /\ suf = "right" -> "s_right"
                     [] c = "s" /\ suf = "L"     -> "s_L"     [] c = "s" /\ suf = "R"     -> "s_R"
IdxName(suf) == CASE suf = "left" -> "index_left" [] suf = "right" -> "index_right" [] suf = "L" -> "index_L" [] suf = "R" -> "index_R"
(* expected column names, in the abstract roles LA (left a), LS (left s), LG (left geometry), RI (right index
   column), RB, RS, and for how = right LI (left index column), RG (right geometry) *)
Names(how, clash, lsuf, rsuf) ==
    [ LA |-> "a", LS |-> IF clash THEN SufName("s", lsuf) ELSE "sl",
      RB |-> "b", RS |-> IF clash THEN SufName("s", rsuf) ELSE "sr",
      G  |-> "geometry", XI |-> IF how = "right" THEN IdxName(lsuf) ELSE IdxName(rsuf) ]
Row(how, L, R, l, r) ==                              \* l = 0 / r = 0: unmatched side
    [ idx |-> IF how = "right" THEN R[r].lab ELSE L[l].lab,
      XI  |-> IF how = "right" THEN (IF l = 0 THEN NA ELSE L[l].lab) ELSE (IF r = 0 THEN NA ELSE R[r].lab),
      LA  |-> IF l = 0 THEN NA ELSE L[l].a,
      LS  |-> IF l = 0 THEN NA ELSE L[l].s,
      RB  |-> IF r = 0 THEN NA ELSE R[r].b,
      RS  |-> IF r = 0 THEN NA ELSE R[r].s,
      G   |-> IF how = "right" THEN R[r].g ELSE L[l].g ]
(* the frames a configuration denotes: labels by style (0: 0..n-1, 1: duplicates 0/1, 2: descending 50, 49, ..),
   a = 10 l, left s = 100 + l, b = 20 r, right s = 200 + r *)
Lab(style, i) == CASE style = 0 -> i - 1 [] style = 1 -> i % 2 [] style = 2 -> 51 - i
LeftFrame(lrows, style)  == [l \in 1..Len(lrows) |-> [g |-> lrows[l], lab |-> Lab(style, l), a |-> 10 * l, s |-> 100 + l]]
RightFrame(rrows, style) == [r \in 1..Len(rrows) |-> [g |-> rrows[r], lab |-> Lab(style, r), b |-> 20 * r, s |-> 200 + r]]
PairSet(how, nl, nr, H) ==                             \* H: the set of matching (l, r) position pairs
    LET unmatchedL == {l \in 1..nl : ~\E p \in H : p[1] = l}
        unmatchedR == {r \in 1..nr : ~\E p \in H : p[2] = r}
    IN CASE how = "inner" -> H
         [] how = "left"  -> H \cup {<<l, 0>> : l \in unmatchedL}
         [] how = "right" -> H \cup {<<0, r>> : r \in unmatchedR}
(* the joined table: exactly one row per element of PairSet, as a sequence in no particular order (the replay
   compares bags) *)
Join(how, L, R, H) == LET ps == SetToSeq(PairSet(how, Len(L), Len(R), H)) IN
                      [k \in 1..Len(ps) |-> Row(how, L, R, ps[k][1], ps[k][2])]
=============================================================================
