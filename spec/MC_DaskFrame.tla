----------------------------- MODULE MC_DaskFrame -----------------------------
(* C06 small scope: <= N catalogue rows (missing / empty included) split into 1..3 contiguous partitions (so that empty
   partitions, all-inert partitions and partitions entirely inside the query box all occur, the former two also through
   Filter), provenance sequences Touch / Filter / ColSelect of length <= MaxOps - 1 followed by one query. *)
EXTENDS DaskFrame, GeoCatalogue, TLC
CONSTANTS N, Shard, NShards, KeyStride

AxisSpecs == << <<OMIT, OMIT, 0>>, <<1, 3, 0>>, <<3, 1, 0>>, <<OMIT, 3, 0>>, <<-1, 1, 0>>, <<0, 4, 0>>, <<5, OMIT, 0>>, <<3, 5, 0>> >>
KeySeq == [k \in 1..(Len(AxisSpecs) * Len(AxisSpecs)) |->
             << AxisSpecs[((k - 1) \div Len(AxisSpecs)) + 1], AxisSpecs[((k - 1) % Len(AxisSpecs)) + 1] >>]
Keys == {KeySeq[k] : k \in {j \in 1..Len(KeySeq) : j % KeyStride = 0}}
Hash(s) == LET RECURSIVE H(_)
               H(i) == IF i > Len(s) THEN 0 ELSE (i * s[i] + 7 * H(i + 1)) % 100003
           IN H(1)
(* all ways to cut a sequence into 1..3 contiguous partitions (cuts may coincide: empty partitions) *)
Splits(s) == {<<s>>} \cup {<<SubSeq(s, 1, a), SubSeq(s, a + 1, Len(s))>> : a \in 0..Len(s)}
             \cup {<<SubSeq(s, 1, a), SubSeq(s, a + 1, b), SubSeq(s, b + 1, Len(s))>> : a \in 0..Len(s), b \in 0..Len(s)}
(* row filters: drop the first row, drop the last row, keep the odd rows, keep only the first partition's worth .. *)
FilterSets(n) == {S \in { 2..n, 1..(n - 1), {i \in 1..n : i % 2 = 1}, {i \in 1..n : i % 2 = 0} } : S # {} /\ S # 1..n}
IdSeq(ps) == [k \in 1..Len(ps) |-> [j \in 1..Len(ps[k]) |-> SumSeq([q \in 1..(k - 1) |-> Len(ps[q])]) + j]]

Init == /\ \E rows \in UNION {[1..k -> 1..Len(Elems)] : k \in 1..N} :
              /\ Hash(rows) % NShards = Shard
              /\ parts \in Splits(rows)
        /\ parts0 = parts
        /\ ids = IdSeq(parts)
        /\ bcache = NONEB /\ hist = <<>> /\ out = NoOut
Next == /\ out.op = "" /\ Len(hist) < MaxOps
        /\ \/ TouchBounds
           \/ \E keep \in FilterSets(Len(Flat(parts))) : FilterRows(keep)
           \/ ColSelect
           \/ \E key \in Keys : Cx(key) \/ CxParts(key)
           \/ TotalB
           \/ \E how \in {"inner", "left"} : SJoinOp(how)
=============================================================================
