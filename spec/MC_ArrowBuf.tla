------------------------------ MODULE MC_ArrowBuf ------------------------------
(* every abstract array of <= 2 elements over a small element universe, at every nesting depth, in every layout
   with 0..MaxOff foreign elements before and 0..1 after the window, with and without a validity bitmap *)
EXTENDS ArrowBuf, TLC
CONSTANTS MaxOff, LongPre
VARIABLES K, A, pre, post, bm

U1 == {NullEl, Val(<<>>), Val(<<1, 2>>), Val(<<3, 4, 5, 6>>)}
U2 == {NullEl, Val(<<>>), Val(<< <<>> >>), Val(<< <<1, 2>> >>), Val(<< <<1, 2, 3, 4>>, <<5, 6>> >>), Val(<< <<>>, <<7, 8>> >>)}
U3 == {NullEl, Val(<<>>), Val(<< <<>> >>), Val(<< << <<>> >> >>), Val(<< << <<1, 2>> >> >>),
       Val(<< << <<1, 2, 3, 4>>, <<5, 6>> >>, << <<7, 8>> >> >>), Val(<< <<>>, << <<9, 9>> >> >>)}
U(k) == IF k = 1 THEN U1 ELSE IF k = 2 THEN U2 ELSE U3
Seqs(S, n) == UNION {[1..m -> S] : m \in 0..n}

Init == /\ K \in 1..3
        /\ A \in Seqs(U(K), 2)
        (* foreign elements before the window: every short sequence, and long runs (alternating missing / present) so that the
           window straddles a byte boundary of the validity bitmap *)
        /\ pre \in Seqs(U(K), MaxOff) \cup {[i \in 1..k |-> IF i % 3 = 0 THEN NullEl ELSE Val(<<>>)] : k \in LongPre}
        /\ post \in Seqs(U(K), 1)
        /\ bm \in BOOLEAN
Next == UNCHANGED <<K, A, pre, post, bm>>
AccessorsExact == AccessorsExactFor(Layout(pre, A, post, K, bm), A, K)
=============================================================================
