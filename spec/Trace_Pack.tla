------------------------------ MODULE Trace_Pack ------------------------------
(* C09 / C10, code -> spec: {kind, elems, p, nparts, parts: [[[id, [digits]], ..], ..]} - the result of pack_partitions
   (or of reading back a dataset written by pack_partitions_to_parquet).  Verdict = Pack!WhyNot. *)
EXTENDS Pack, Json, IOUtils, TLC
TraceLog == ndJsonDeserialize(IOEnv.TRACE_FILE)
VARIABLES l, verdict
Init == \E i \in 1..Len(TraceLog) : l = i /\ verdict = WhyNot(TraceLog[i].elems, TraceLog[i].p, TraceLog[i].nparts, TraceLog[i].parts)
Next == UNCHANGED <<l, verdict>>
RecordOK == verdict = "ok"
=============================================================================
