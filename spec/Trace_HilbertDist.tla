-------------------------- MODULE Trace_HilbertDist --------------------------
(* C08, code -> spec.  Records (integers; distances as base-4 digit sequences, most significant first):
     {op: "hd",  kind, elem, tb: [x0,y0,x1,y1], p, dg}   hilbert_distance(total_bounds = tb, p) of one element
     {op: "hdd", kind, elems, i, p, dg}                  same with the default total_bounds (= the array's own)
   Verdicts: "ok" (equals the curve position of the centre cell), "range" (outside the exact domain: only the range
   [0, 4^p) is demanded - guaranteed by Len(dg) = p and digits in 0..3), "mismatch". *)
EXTENDS HilbertDist, Json, IOUtils, TLC

TraceLog == ndJsonDeserialize(IOEnv.TRACE_FILE)
VARIABLES l, verdict

InRange(dg, p) == Len(dg) = p /\ \A i \in 1..p : dg[i] \in 0..3
JudgeOne(e, tb, p, dg) ==
    LET b == Bounds(e) IN
    IF ~InRange(dg, p) THEN "mismatch"
    ELSE IF ~ExactDomain(b, tb) THEN "range"
    ELSE IF dg = DistanceDigits(b, tb, p) THEN "ok" ELSE "mismatch"
Judge(r) == IF r.op = "hd" THEN JudgeOne(r.elem, r.tb, r.p, r.dg)
            ELSE JudgeOne(r.elems[r.i], TotalBounds(r.elems), r.p, r.dg)

Init == \E i \in 1..Len(TraceLog) : l = i /\ verdict = Judge(TraceLog[i])
Next == UNCHANGED <<l, verdict>>
RecordOK == verdict # "mismatch"
=============================================================================
