---------------------------- MODULE Trace_BoxHit ----------------------------
(* C01 / C02, code -> spec: every record of the trace (one call of the real implementation with its
   argument and result) is judged by the P-level oracle.  Records are independent, so each record is
   one initial state and the verdict is a state variable (read back from the state dump):
       "ok"        the implementation's answer is the oracle's
       "unspec"    the oracle says the case is outside the guarantee (degenerate box, point on a ring)
       "invalid"   the input is outside the property's domain (polygon not valid)
       "mismatch"  the implementation's answer differs from the oracle's  -> RecordOK is violated
   Record formats (integers only; NaN = SPNum!NaN):
       {op: "box",   kind, null, g, box: [x0,y0,x1,y1], res: 0|1}
       {op: "point", kind, null, g, pt: [x,y], res: 0|1}                                      *)
EXTENDS SPGeom, Json, IOUtils, TLC

TraceLog == ndJsonDeserialize(IOEnv.TRACE_FILE)
VARIABLES l, verdict

Valid(kind, e) == kind \notin PolyKinds \/ e.null \/ \A p \in 1..Len(e.g) : ValidPolygon(e.g[p])
Judge(r) ==
    LET e == [null |-> r.null, g |-> r.g] IN
    IF ~Valid(r.kind, e) THEN "invalid"
    ELSE LET want == IF r.op = "box" THEN BoxHit(r.kind, e, r.box) ELSE PointHit(r.pt, r.kind, e) IN
         IF want = "U" THEN "unspec"
         ELSE IF (want = "T") = (r.res = 1) THEN "ok" ELSE "mismatch"

Init == \E i \in 1..Len(TraceLog) : l = i /\ verdict = Judge(TraceLog[i])
Next == UNCHANGED <<l, verdict>>
RecordOK == verdict # "mismatch"
=============================================================================
