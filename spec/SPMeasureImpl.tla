---------------------------- MODULE SPMeasureImpl ----------------------------
(* D level: transcription of measures.py (compute_area, compute_line_length), orientation.py
   (orient_polygons) and of the offset composition of _geometry_map_nested1/2/3 and
   bounds_interleaved(buffer_values, buffer_outer_offsets), on the flat layout of SPGeomImpl
   (values with a junk prefix, ring offsets into values, part offsets into ring offsets). *)
EXTENDS SPMeasure, SPGeomImpl

(* compute_area(values, value_offsets) returns area / 2.0; here TWICE that value (= the sum the loop builds) *)
RECURSIVE AreaLoop(_, _, _)
AreaLoop(values, k, stop) ==                 \* for k in range(start, stop - 4, 2): area += x[k+2] * (y[k+4] - y[k])
    IF k >= stop - 4 THEN 0
    ELSE A(values, k + 2) * (A(values, k + 5) - A(values, k + 1)) + AreaLoop(values, k + 2, stop)
ImplRingArea2(values, start, stop) ==
    IF stop - start < 6 THEN 0
    ELSE AreaLoop(values, start, stop) + A(values, start) * (A(values, start + 3) - A(values, stop - 3))
RECURSIVE ImplArea2(_, _, _)
ImplArea2(values, offsets, i) ==             \* offsets: 1-based sequence of ring offsets handed to compute_area
    IF i >= Len(offsets) THEN 0
    ELSE ImplRingArea2(values, offsets[i], offsets[i + 1]) + ImplArea2(values, offsets, i + 1)

(* compute_line_length: squared lengths of the segments it adds, in order *)
RECURSIVE LenLoop(_, _, _)
LenLoop(values, i, stop) ==                  \* for i in range(start + 2, stop, 2), (x0, y0) = previous vertex
    IF i >= stop THEN <<>>
    ELSE LET x0 == A(values, i - 2)
             y0 == A(values, i - 1)
             x1 == A(values, i)
             y1 == A(values, i + 1)
         IN (IF IsFinite(x0) /\ IsFinite(y0) /\ IsFinite(x1) /\ IsFinite(y1)
             THEN << (x1 - x0) * (x1 - x0) + (y1 - y0) * (y1 - y0) >> ELSE <<>>) \o LenLoop(values, i + 2, stop)
RECURSIVE ImplSqLens(_, _, _)
ImplSqLens(values, offsets, i) ==
    IF i >= Len(offsets) THEN <<>>
    ELSE LenLoop(values, offsets[i] + 2, offsets[i + 1]) \o ImplSqLens(values, offsets, i + 1)

(* offsets handed to fn by _geometry_map_nested{1,2,3} for the single element g laid out by SPGeomImpl:
   nested1: value_offsets0[i:i+2];  nested2: value_offsets1[start:stop+1];
   nested3: value_offsets2[value_offsets1[start0] : value_offsets1[stop0] + 1].
   With one element, all rings of the element are handed over: the ring offsets of g. *)
ImplElementArea2(kind, e) == IF e.null \/ kind \notin PolyKinds THEN 0 ELSE ImplArea2(ValuesOf(e.g), RingOffsets(e.g), 1)
ImplElementSqLens(kind, e) == IF e.null \/ kind \in PointKinds THEN <<>> ELSE ImplSqLens(ValuesOf(e.g), RingOffsets(e.g), 1)

(* bounds_interleaved(buffer_values, buffer_outer_offsets) for the single element *)
ImplBounds(e) == IF e.null THEN NaNRow
                 ELSE LET ro == RingOffsets(e.g) IN BoundsOf(ValuesOf(e.g), ro[1], ro[Len(ro)])

(* orient_polygons(values, polygon_offsets, ring_offsets) after commit "fix: oriented() leaves zero-area
   rings alone": ring i is reversed iff its area is non-zero and its sign is not the expected one;
   expected_ccw[polygon_offsets[:-1]] = True.  Returned as the abstract element read back from the
   mutated values. *)
ImplOriented(e) ==
    IF e.null THEN NULL
    ELSE LET rings == RingsOf(e.g)
             po    == PartOffsets(e.g)
             shellIdx == {po[k] : k \in 1..(Len(po) - 1)}                \* 0-based ring numbers that start a polygon
             values == ValuesOf(e.g)
             ro     == RingOffsets(e.g)
             flip(r) == LET a == ImplRingArea2(values, ro[r], ro[r + 1]) IN
                        a # 0 /\ (a > 0) # ((r - 1) \in shellIdx)
             newRings == [r \in 1..Len(rings) |-> IF flip(r) THEN Reverse(rings[r]) ELSE rings[r]]
         IN El([p \in 1..Len(e.g) |-> SubSeq(newRings, po[p] + 1, po[p + 1])])
=============================================================================
