----------------------------- MODULE MC_PointHit -----------------------------
(* C02, spec -> code and design check: every shape of the families of GeomFamilies against every test
   point of the doubled grid (so that rays through vertices and along horizontal edges, points on
   segments and beyond their ends are the rule, not the exception).  `expect` = SPGeom!PointHit over
   PtSeq (1 = intersects, 0 = not, 2 = on a polygon ring: outside the guarantee);  DesignAgrees compares
   with the transcription of point.py / point_intersects_polygon (winding number, half-open rule). *)
EXTENDS GeomFamilies, SPGeomImpl, TLC

CONSTANTS Shard, NShards
VARIABLES kind, elem, expect

PtSeq == SetToSeq(BC \X BC)
Code(v) == IF v = "T" THEN 1 ELSE IF v = "F" THEN 0 ELSE 2

ASSUME PrintT(<<"PTSEQ", PtSeq>>)
ASSUME PrintT(<<"NELEMS", Len(ElemSeq)>>)

Init == \E i \in 1..Len(ElemSeq) :
          /\ i % NShards = Shard
          /\ kind = ElemSeq[i][1]
          /\ elem = ElemSeq[i][2]
          /\ expect = [b \in 1..Len(PtSeq) |-> Code(PointHit(PtSeq[b], ElemSeq[i][1], ElemSeq[i][2]))]
Next == UNCHANGED <<kind, elem, expect>>

DesignAgrees == \A b \in 1..Len(PtSeq) :
                   expect[b] = 2 \/ expect[b] = Code(ImplPointHit(PtSeq[b], kind, elem))
(* the two independent formulations agree: even-odd crossing parity (P) and non-zero winding number (D)
   never differ off the rings - the design-level statement of C02 for valid polygons *)
=============================================================================
