----------------------------- MODULE MC_Hilbert -----------------------------
(* C07: what TLC decides alone.
   ASSUMEs (evaluated once): the finite lemma L1-L4; the transducer equals the textbook recursion H(p)
   for p <= PMaxH.
   States: one per (n, p, d), d a distance of the order-p curve in n dimensions (sharded); invariants:
     RoundTrip      coordinate_from_distance and distance_from_coordinate (transcriptions) are inverse
     InGrid         the cell lies in the 2^p grid
     UnitStep       the cells of d and d + 1 are grid neighbours
     Refines        dropping the last n bits of d gives the order-(p-1) distance of the parent cell
     Classical      for n = 2 the transcription equals the transducer (hence the classical curve)
   Bijectivity follows from RoundTrip over all d plus InGrid (an injective map between equal finite sets). *)
EXTENDS Hilbert, HilbertSkilling, TLC

CONSTANTS Configs, PMaxH, Shard, NShards      \* Configs: set of numbers 100 * n + p
VARIABLES n, p, d, cell

ASSUME Lemma
ASSUME \A q \in 1..PMaxH : LET h == H(q) IN
           \A i \in 1..Len(h) : /\ CellOf(i - 1, q) = h[i]
                                /\ DistanceOf(h[i][1], h[i][2], q) = i - 1

Init == \E c \in Configs : \E dd \in 0..(Pw2((c \div 100) * (c % 100)) - 1) :
           /\ dd % NShards = Shard
           /\ n = c \div 100 /\ p = c % 100 /\ d = dd
           /\ cell = CoordinateFromDistance(c % 100, c \div 100, dd)
Next == UNCHANGED <<n, p, d, cell>>

RoundTrip == DistanceFromCoordinate(p, cell) = d
InGrid    == \A i \in 1..n : cell[i] >= 0 /\ cell[i] < Pw2(p)
UnitStep  == d + 1 < Pw2(n * p) =>
               LET c2 == CoordinateFromDistance(p, n, d + 1) IN
               \E a \in 1..n : /\ (cell[a] - c2[a] = 1 \/ c2[a] - cell[a] = 1)
                               /\ \A b \in 1..n : b # a => cell[b] = c2[b]
Refines   == p > 1 => DistanceFromCoordinate(p - 1, [i \in 1..n |-> cell[i] \div 2]) = d \div Pw2(n)
Classical == n = 2 => /\ cell = CellOf(d, p)
                      /\ (d = 0 => cell = <<0, 0>>)
                      /\ (d = Pw2(2 * p) - 1 => cell = <<Pw2(p) - 1, 0>>)
=============================================================================
