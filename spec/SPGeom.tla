------------------------------- MODULE SPGeom -------------------------------
(* P level: what the intersection predicates of spatialpandas promise (properties C01, C02),
   written as exact integer geometry without reference to how the code computes them.

   A vertex is <<x, y>>.  An element's coordinates are normalised to three nesting levels
       g = << part_1, ..., part_n >>,  part = << ring_1, ..., ring_m >>,  ring = << v_1, ..., v_k >>
   whatever its kind:
       point        << << <<v>> >> >>            multipoint / line / ring   << << vs >> >>
       multiline    << << l_1, ..., l_m >> >>      polygon                    << << shell, hole_1, ... >> >>
       multipolygon << poly_1, ..., poly_n >>
   A missing (NA) element is the record NULL; an "empty" element has no finite coordinate. *)
EXTENDS SPNum

NULL == [null |-> TRUE, g |-> <<>>]
El(g) == [null |-> FALSE, g |-> g]

PointKinds == {"point", "multipoint"}
LineKinds  == {"line", "ring", "multiline"}
PolyKinds  == {"polygon", "multipolygon"}
Kinds      == PointKinds \cup LineKinds \cup PolyKinds

(* ---- orientation, incidence ---- *)
Orient(a, b, c) == Sign((b[1] - a[1]) * (c[2] - a[2]) - (b[2] - a[2]) * (c[1] - a[1]))
Between(p, a, b) == Min2(a, b) <= p /\ p <= Max2(a, b)
OnSeg(p, a, b) == /\ Orient(a, b, p) = 0
                  /\ Between(p[1], a[1], b[1])
                  /\ Between(p[2], a[2], b[2])
(* closed segments ab and cd share a point *)
SegSeg(a, b, c, d) ==
    LET o1 == Orient(a, b, c)
        o2 == Orient(a, b, d)
        o3 == Orient(c, d, a)
        o4 == Orient(c, d, b)
    IN
    \/ (o1 * o2 < 0 /\ o3 * o4 < 0)
    \/ OnSeg(c, a, b) \/ OnSeg(d, a, b) \/ OnSeg(a, c, d) \/ OnSeg(b, c, d)

(* ---- boxes <<x0, y0, x1, y1>>, corners in any order ---- *)
NormBox(B) == << Min2(B[1], B[3]), Min2(B[2], B[4]), Max2(B[1], B[3]), Max2(B[2], B[4]) >>
BoxDegenerate(B) == B[1] = B[3] \/ B[2] = B[4]
(* closed containment; a NaN coordinate is in no box *)
InBox(v, B) == /\ Le(B[1], v[1]) /\ Le(v[1], B[3])
               /\ Le(B[2], v[2]) /\ Le(v[2], B[4])
BoxEdges(B) == { << <<B[1], B[2]>>, <<B[3], B[2]>> >>, << <<B[1], B[4]>>, <<B[3], B[4]>> >>,
                 << <<B[1], B[2]>>, <<B[1], B[4]>> >>, << <<B[3], B[2]>>, <<B[3], B[4]>> >> }
(* closed segment meets closed box: an endpoint is inside, or the segment meets the box boundary *)
SegBox(a, b, B) == \/ InBox(a, B) \/ InBox(b, B)
                   \/ \E e \in BoxEdges(B) : SegSeg(a, b, e[1], e[2])

(* a vertex sequence taken as a polyline (its vertices and the segments between neighbours) *)
LineHit(vs, B) == \/ \E i \in 1..Len(vs) : InBox(vs[i], B)
                  \/ \E i \in 1..(Len(vs) - 1) : SegBox(vs[i], vs[i + 1], B)

(* ---- point against rings: even-odd crossing parity with the half-open rule (exact, no division) ---- *)
EdgeCrosses(p, a, b) ==
    LET lo == IF a[2] <= b[2] THEN a ELSE b
        hi == IF a[2] <= b[2] THEN b ELSE a
    IN
    /\ lo[2] <= p[2] /\ p[2] < hi[2]          \* horizontal edges never count
    /\ Orient(lo, hi, p) > 0                  \* p strictly left of the upward edge: the ray to +x crosses it
RingEdges(rings) == UNION { {<<r, i>> : i \in 1..(Len(rings[r]) - 1)} : r \in 1..Len(rings) }
Crossings(p, rings) == Cardinality({e \in RingEdges(rings) :
                                      EdgeCrosses(p, rings[e[1]][e[2]], rings[e[1]][e[2] + 1])})
OnRings(p, rings) == \E e \in RingEdges(rings) : OnSeg(p, rings[e[1]][e[2]], rings[e[1]][e[2] + 1])
InsideEO(p, rings) == Crossings(p, rings) % 2 = 1
PointClass(p, rings) == IF OnRings(p, rings) THEN "BOUNDARY"
                        ELSE IF InsideEO(p, rings) THEN "IN" ELSE "OUT"

(* closed region (shell minus open holes) of one polygon meets the closed box: a ring meets the box,
   or no ring does - then the box lies in a single face of the ring arrangement and one corner decides *)
PolyHit(rings, B) == \/ \E r \in 1..Len(rings) : LineHit(rings[r], B)
                     \/ InsideEO(<<B[1], B[2]>>, rings)

(* ---- C01: BoxHit(kind, element, box)  in {"T", "F", "U"}; "U" = outside the guarantee ---- *)
AllVerts(g) == UNION { UNION { SeqSet(g[p][r]) : r \in 1..Len(g[p]) } : p \in 1..Len(g) }
BoxHitBool(kind, g, B) ==
    IF kind \in PointKinds THEN \E v \in AllVerts(g) : InBox(v, B)
    ELSE IF kind \in LineKinds THEN \E p \in 1..Len(g) : \E r \in 1..Len(g[p]) : LineHit(g[p][r], B)
    ELSE \E p \in 1..Len(g) : PolyHit(g[p], B)
BoxHit(kind, e, B0) ==
    LET B == NormBox(B0) IN
    IF e.null THEN "F"
    ELSE IF kind \notin PointKinds /\ BoxDegenerate(B) THEN "U"
    ELSE IF BoxHitBool(kind, e.g, B) THEN "T" ELSE "F"

(* ---- C02: PointHit(point, shape kind, shape) in {"T", "F", "U"} ---- *)
PointHit(pt, kind, e) ==
    IF e.null \/ IsNaN(pt[1]) \/ IsNaN(pt[2]) THEN "F"
    ELSE IF kind \in PointKinds THEN (IF pt \in AllVerts(e.g) THEN "T" ELSE "F")
    ELSE IF kind \in LineKinds THEN
         (IF \E p \in 1..Len(e.g) : \E r \in 1..Len(e.g[p]) :
                \/ \E i \in 1..Len(e.g[p][r]) : e.g[p][r][i] = pt
                \/ \E i \in 1..(Len(e.g[p][r]) - 1) : OnSeg(pt, e.g[p][r][i], e.g[p][r][i + 1])
          THEN "T" ELSE "F")
    ELSE IF \E p \in 1..Len(e.g) : OnRings(pt, e.g[p]) THEN "U"
    ELSE IF \E p \in 1..Len(e.g) : InsideEO(pt, e.g[p]) THEN "T" ELSE "F"

(* ---- validity (the domain C01 / C02 speak about) ---- *)
RECURSIVE Area2Rec(_, _)
Area2Rec(ring, i) == IF i >= Len(ring) THEN 0
                     ELSE ring[i][1] * ring[i + 1][2] - ring[i + 1][1] * ring[i][2] + Area2Rec(ring, i + 1)
TwiceArea(ring) == IF Len(ring) < 3 THEN 0 ELSE Area2Rec(ring, 1)     \* ring closed: last = first
Closed(ring) == Len(ring) >= 4 /\ ring[1] = ring[Len(ring)]
(* consecutive edges only share their common vertex, non-consecutive edges are disjoint *)
SimpleRing(ring) ==
    /\ Closed(ring) /\ TwiceArea(ring) # 0
    /\ \A i, j \in 1..(Len(ring) - 1) :
         i < j =>
           IF j = i + 1 THEN ~OnSeg(ring[j + 1], ring[i], ring[i + 1]) /\ ~OnSeg(ring[i], ring[j], ring[j + 1])
           ELSE IF i = 1 /\ j = Len(ring) - 1
                THEN ~OnSeg(ring[j], ring[i], ring[i + 1]) /\ ~OnSeg(ring[i + 1], ring[j], ring[j + 1])
                ELSE ~SegSeg(ring[i], ring[i + 1], ring[j], ring[j + 1])
RingStrictlyInside(h, s) == \A i \in 1..Len(h) : PointClass(h[i], <<s>>) = "IN"
RingsApart(a, b) ==
    /\ \A i \in 1..(Len(a) - 1), j \in 1..(Len(b) - 1) : ~SegSeg(a[i], a[i + 1], b[j], b[j + 1])
    /\ PointClass(a[1], <<b>>) = "OUT" /\ PointClass(b[1], <<a>>) = "OUT"
ValidPolygon(rings) ==
    /\ Len(rings) >= 1
    /\ \A r \in 1..Len(rings) : SimpleRing(rings[r])
    /\ \A r \in 2..Len(rings) :
         /\ RingStrictlyInside(rings[r], rings[1])
         /\ \A i \in 1..(Len(rings[r]) - 1), j \in 1..(Len(rings[1]) - 1) :
              ~SegSeg(rings[r][i], rings[r][i + 1], rings[1][j], rings[1][j + 1])
         /\ Sign(TwiceArea(rings[r])) = -Sign(TwiceArea(rings[1]))
    /\ \A r, q \in 2..Len(rings) : r < q => RingsApart(rings[r], rings[q])
=============================================================================
