---------------------------- MODULE GeomFamilies ----------------------------
(* The small-scope families of geometry elements shared by the case generators (C01, C02, ...).
   G = grid points per axis: vertices at even coordinates 0, 2, .., 2(G-1); queries (box corners, test
   points) use every integer -1 .. 2G-1, so that they fall on vertices, on edges, between and outside.
   Fam selects the family.  All polygons produced here satisfy SPGeom!ValidPolygon. *)
EXTENDS SPGeom, SequencesExt

CONSTANTS G, Fam

Grid  == {2 * i : i \in 0..(G - 1)}
Verts == Grid \X Grid
VSeqs(n) == UNION {[1..k -> Verts] : k \in 0..n}
Canonical(ring) == \A i \in 2..(Len(ring) - 1) : ring[1][1] * 100 + ring[1][2] < ring[i][1] * 100 + ring[i][2]
CloseRing(vs) == Append(vs, vs[1])
SimpleRings(k) == {r \in {CloseRing(vs) : vs \in [1..k -> Verts]} : Canonical(r) /\ SimpleRing(r)}

(* holed polygons: shell = the full square or the lower-left triangle of the G-grid, hole = a triangle or
   axis-parallel square on the inner grid, wound opposite to the shell; needs G >= 5 *)
M == 2 * (G - 1)
(* closed ring started at another vertex: Rot(r, k) starts at r[k + 1] *)
Rot(ring, k) == LET n == Len(ring) - 1 IN [i \in 1..(n + 1) |-> ring[((i - 1 + k) % n) + 1]]
Shells == { << <<0, 0>>, <<M, 0>>, <<M, M>>, <<0, M>>, <<0, 0>> >>,
            << <<0, 0>>, <<0, M>>, <<M, M>>, <<M, 0>>, <<0, 0>> >>,
            << <<0, 0>>, <<M, 0>>, <<0, M>>, <<0, 0>> >>,
            << <<0, 0>>, <<0, M>>, <<M, 0>>, <<0, 0>> >>,
            Rot(<< <<0, 0>>, <<M, 0>>, <<M, M>>, <<0, M>>, <<0, 0>> >>, 1),
            Rot(<< <<0, 0>>, <<0, M>>, <<M, M>>, <<M, 0>>, <<0, 0>> >>, 3) }
Inner == {2 * i : i \in 1..(G - 2)}
InnerRings == {r \in {CloseRing(vs) : vs \in [1..3 -> Inner \X Inner]} : SimpleRing(r)}
InnerSquares == UNION { { << <<a, b>>, <<a + s, b>>, <<a + s, b + s>>, <<a, b + s>>, <<a, b>> >>,
                          << <<a, b>>, <<a, b + s>>, <<a + s, b + s>>, <<a + s, b>>, <<a, b>> >>,
                          (* the same squares started at the opposite corner: the straight line from the previous ring's first
                             vertex to this ring's first vertex then runs through the hole *)
                          Rot(<< <<a, b>>, <<a + s, b>>, <<a + s, b + s>>, <<a, b + s>>, <<a, b>> >>, 2),
                          Rot(<< <<a, b>>, <<a, b + s>>, <<a + s, b + s>>, <<a + s, b>>, <<a, b>> >>, 2) }
                        : <<a, b, s>> \in {t \in Inner \X Inner \X {2, 4} : t[1] + t[3] < M /\ t[2] + t[3] < M} }
Holed1 == {p \in {<<s, h>> : s \in Shells, h \in (InnerRings \cup InnerSquares)} : ValidPolygon(p)}
Holed2 == {p \in {<<s, h1, h2>> : s \in Shells, h1 \in InnerSquares, h2 \in InnerSquares} : ValidPolygon(p)}

(* two-part shapes: small triangles / squares placed far apart, touching at a vertex, sharing an edge,
   and a part inside the other's hole *)
SmallPolys == {<<r>> : r \in SimpleRings(3)}
PolyPairs == {<<a, b>> : a \in {p \in SmallPolys : p[1][1] = <<0, 0>>}, b \in SmallPolys}
(* pairs of triangles with disjoint interiors (they may touch in a vertex or along an edge) *)
Scale3(ring) == [i \in 1..Len(ring) |-> <<3 * ring[i][1], 3 * ring[i][2]>>]
Centroid3(ring) == <<ring[1][1] + ring[2][1] + ring[3][1], ring[1][2] + ring[2][2] + ring[3][2]>>
ProperCross(a, b, c, d) == Orient(a, b, c) * Orient(a, b, d) < 0 /\ Orient(c, d, a) * Orient(c, d, b) < 0
InteriorsDisjoint(a, b) ==
    /\ \A i \in 1..3, j \in 1..3 : ~ProperCross(a[i], a[i + 1], b[j], b[j + 1])
    /\ \A i \in 1..3 : PointClass(a[i], <<b>>) # "IN" /\ PointClass(b[i], <<a>>) # "IN"
    /\ PointClass(Centroid3(a), <<Scale3(b)>>) # "IN" /\ PointClass(Centroid3(b), <<Scale3(a)>>) # "IN"
ValidPairs == {pp \in PolyPairs : InteriorsDisjoint(pp[1][1], pp[2][1])}

(* a polygon with a square hole of side 4 and a second part (square of side 2) strictly inside that hole *)
Sq(a, b, d, ccw) == IF ccw THEN << <<a, b>>, <<a + d, b>>, <<a + d, b + d>>, <<a, b + d>>, <<a, b>> >>
                    ELSE << <<a, b>>, <<a, b + d>>, <<a + d, b + d>>, <<a + d, b>>, <<a, b>> >>
HoledMulti == {pp \in { << <<s, Sq(t[1], t[2], 4, t[3])>>, <<Sq(t[1] + 1, t[2] + 1, 2, t[4])>> >> :
                          s \in Shells, t \in Inner \X Inner \X BOOLEAN \X BOOLEAN } : ValidPolygon(pp[1])}

(* ---- families for the measures (C13 - C15): non-finite coordinates, degenerate and arbitrary rings ---- *)
VertsX == Verts \cup {<<NaN, NaN>>, <<0, NaN>>, <<PInf, 2>>}
AnyRings == {CloseRing(vs) : vs \in UNION {[1..k -> Verts] : k \in 1..3}} \cup {<<>>}
            \cup {<<v>> : v \in {<<0, 0>>, <<2, 4>>}} \cup { << <<0, 0>>, <<4, 2>> >> }
InnerAny == {CloseRing(vs) : vs \in [1..3 -> Inner \X Inner]}
Quad4 == {CloseRing(vs) : vs \in {w \in [1..4 -> Verts] : w[1] = <<0, 0>> /\ w[3] = <<4, 4>>}}

DegRings == { <<>>, << <<0, 0>> >>, << <<0, 0>>, <<4, 2>> >>, << <<0, 0>>, <<2, 2>>, <<4, 4>>, <<0, 0>> >>, << <<2, 0>>, <<2, 0>>, <<2, 0>>, <<2, 0>> >> }
Elements ==
    CASE Fam = "point"      -> {<<"point", El(<< << <<v>> >> >>)>> : v \in Verts \cup {<<NaN, NaN>>}} \cup {<<"point", NULL>>}
      [] Fam = "multipoint" -> {<<"multipoint", El(<< <<vs>> >>)>> : vs \in VSeqs(2)} \cup {<<"multipoint", NULL>>}
      [] Fam = "line"       -> {<<"line", El(<< <<vs>> >>)>> : vs \in VSeqs(3)} \cup {<<"line", NULL>>}
      [] Fam = "line4"      -> {<<"line", El(<< <<vs>> >>)>> : vs \in [1..4 -> Verts]}
      [] Fam = "multiline"  -> {<<"multiline", El(<< <<a, b>> >>)>> : a \in [1..2 -> Verts], b \in VSeqs(2)}
                               \cup {<<"multiline", El(<< <<>> >>)>>, <<"multiline", NULL>>}
      [] Fam = "polygon"    -> {<<"polygon", El(<< <<r>> >>)>> : r \in SimpleRings(3) \cup SimpleRings(4)}
                               \cup {<<"polygon", El(<< <<>> >>)>>, <<"polygon", NULL>>}
      [] Fam = "holed"      -> {<<"polygon", El(<<p>>)>> : p \in Holed1 \cup Holed2}
      [] Fam = "holedrot"   -> {<<"polygon", El(<<p>>)>> : p \in {q \in Holed1 : Len(q[2]) = 5 /\ (q[2][1][1] - q[2][3][1] = 4 \/ q[2][3][1] - q[2][1][1] = 4)}}
      [] Fam = "multipolygon" -> {<<"multipolygon", El(pp)>> : pp \in PolyPairs}
                               \cup {<<"multipolygon", El(<<>>)>>, <<"multipolygon", NULL>>}
      [] Fam = "mpoints"    -> {<<"multipoint", El(<< <<vs>> >>)>> : vs \in UNION {[1..k -> VertsX] : k \in 0..2}}
                               \cup {<<"point", El(<< << <<v>> >> >>)>> : v \in VertsX} \cup {<<"point", NULL>>, <<"multipoint", NULL>>}
      [] Fam = "mlines"     -> {<<"line", El(<< <<vs>> >>)>> : vs \in UNION {[1..k -> VertsX] : k \in 0..3}} \cup {<<"line", NULL>>}
      [] Fam = "mmultilines" -> {<<"multiline", El(<< <<a, b>> >>)>> : a \in [1..2 -> VertsX], b \in UNION {[1..k -> Verts] : k \in 0..2}}
                               \cup {<<"multiline", El(<< <<>> >>)>>, <<"multiline", NULL>>}
      [] Fam = "mrings"     -> {<<"polygon", El(<< <<r>> >>)>> : r \in AnyRings \cup Quad4}
                               \cup {<<"polygon", El(<< <<>> >>)>>, <<"polygon", NULL>>}
      [] Fam = "mpoly2"     -> {<<"polygon", El(<< <<s, h>> >>)>> : s \in Shells, h \in InnerAny \cup InnerSquares}
      [] Fam = "mpoly3"     -> {<<"polygon", El(<< <<s, h1, h2>> >>)>> : s \in Shells, h1 \in InnerSquares, h2 \in InnerSquares}
      [] Fam = "mdegshell"  -> {<<"polygon", El(<< <<d, h>> >>)>> : d \in DegRings, h \in InnerSquares}          \* first ring without area, then rings with area
                               \cup {<<"polygon", El(<< <<d, h1, h2>> >>)>> : d \in DegRings, h1 \in InnerSquares, h2 \in {h \in InnerSquares : h[1] = <<1, 1>>}}
                               \cup {<<"multipolygon", El(<< <<s>>, <<d, h>> >>)>> : s \in {t \in Shells : t[1] = <<0, 0>>}, d \in DegRings, h \in {g \in InnerSquares : g[1] = <<1, 1>>}}
                               \* more rings than coordinate values: three empty rings, then a ring of one or two vertices / a square
                               \cup {<<"polygon", El(<< << <<>>, <<>>, <<>>, h >> >>)>> : h \in {<< <<2, 0>> >>, << <<0, 0>>, <<4, 2>> >>, << <<1, 1>>, <<3, 1>>, <<3, 3>>, <<1, 3>>, <<1, 1>> >>}}
                               \cup {<<"multiline", El(<< << <<>>, <<>>, <<>>, <<>>, <<>>, h >> >>)>> : h \in {<< <<0, 0>>, <<4, 2>> >>, << <<0, 0>>, <<0, 4>>, <<4, 4>> >>}}
      [] Fam = "mmulti"     -> {<<"multipolygon", El(<< <<a>>, <<b>> >>)>> : a \in {r \in AnyRings : Len(r) = 4 /\ r[1] = <<0, 0>>}, b \in AnyRings}
                               \cup {<<"multipolygon", El(<<>>)>>, <<"multipolygon", El(<< <<>> >>)>>, <<"multipolygon", NULL>>}
      [] Fam = "mmulti2"    -> {<<"multipolygon", El(<< <<s, h>>, <<h2>> >>)>> : s \in Shells, h \in InnerSquares, h2 \in InnerSquares}
      [] Fam = "multipolyvalid" -> {<<"multipolygon", El(pp)>> : pp \in ValidPairs}
                               \cup {<<"multipolygon", El(<<>>)>>, <<"multipolygon", NULL>>}
      [] Fam = "holedmulti" -> {<<"multipolygon", El(pp)>> : pp \in HoledMulti}

ElemSeq == SetToSeq(Elements)
BC == (-1)..(2 * G - 1)
=============================================================================
