----------------------------- MODULE Trace_World -----------------------------
(* code -> spec for the cross-feature backbone: histories driven by a random Python driver on real objects (the driver, not TLC,
   chooses the operations; frames of up to 8 rows), every transformation and every observed value logged; TLC accepts a history
   iff it is a behaviour of World in which every logged observation equals the value World requires.
   The file holds many histories: one initial state per history (tid); each step consumes one logged event; a history is accepted
   when its last event has been consumed.  When no disjunct of TStep is enabled the history stays at the offending event with
   verdict "running" - the harness reads the furthest position from the state dump and reports the event.
   An observation the property does not decide (zero-area boxes, points on rings, open rings: the guards of World's Obs*
   actions) is consumed without comparison; a cx SELECTION the property does not decide ends the history as accepted there. *)
EXTENDS World, GeoCatalogue, Json, IOUtils, TLCExt

Traces == JsonDeserialize(IOEnv.TRACE_FILE)
VARIABLES tid, l, verdict
tvars == <<vars, tid, l, verdict>>

SetOf(s) == {s[i] : i \in 1..Len(s)}
Ev == Traces[tid].ev[l]
LastVal == hist'[Len(hist')].val
Consume == /\ l' = l + 1 /\ UNCHANGED tid
           /\ verdict' = IF l = Len(Traces[tid].ev) THEN "accepted" ELSE "running"
Skip == UNCHANGED vars
RowElems == ElemsOfRows(rows)

TInit == /\ tid \in 1..Len(Traces)
         /\ rows = Traces[tid].rows /\ active = 1 /\ form = "pandas" /\ indexed = FALSE /\ ordered = TRUE /\ hist = <<>>
         /\ l = 1 /\ verdict = IF Len(Traces[tid].ev) = 0 THEN "accepted" ELSE "running"

Transform(e) ==
    \/ e.op = "iloc" /\ SliceRows(e.a, e.b)
    \/ e.op = "filter" /\ KeepIds(SetOf(e.a))
    \/ e.op = "reverse" /\ ReverseRows
    \/ e.op = "sort_desc" /\ SortDesc
    \/ e.op = "concat_rotate" /\ Rotate(e.a)
    \/ e.op \in {"copy", "pickle", "persist", "repartition"} /\ Same(e.op)
    \/ e.op = "set_geometry" /\ e.a = 3 - active /\ SetGeometry
    \/ e.op = "build_sindex" /\ BuildIndex(e.a)
    \/ e.op = "from_pandas" /\ ToDask(e.a)
    \/ e.op = "compute" /\ Compute
    \/ e.op = "pack_partitions" /\ Pack(e.a)
    \/ e.op = "parquet_roundtrip" /\ ToParquet
    \/ e.op = "pack_partitions_to_parquet" /\ PackToParquet(e.a)
    \/ e.op = "cx_select" /\ ~Unspecified(Kind, RowElems, e.a) /\ CxSelect(e.a)

AllDecided(B) == \A i \in 1..Len(rows) : BoxHit(Kind, ElemOf(rows[i]), B) # "U"
MeasureDecided == \A i \in 1..Len(rows) : ElemOf(rows[i]).null \/ Kind \notin PolyKinds \/ RingsClosed(ElemOf(rows[i]).g)

Observe(e) ==
    \/ e.op = "ids" /\ ObsIds /\ LastVal = SetOf(e.val)
    \/ e.op = "total_bounds" /\ ObsTotalBounds /\ LastVal = e.val
    \/ e.op = "bounds" /\ ObsBounds /\ LastVal = SetOf(e.val)
    \/ e.op = "cx" /\ TRUE = Unspecified(Kind, RowElems, e.a) /\ Skip
    \/ e.op = "cx" /\ ObsCx(e.a) /\ LastVal = SetOf(e.val)
    \/ e.op = "intersects_bounds" /\ FALSE = AllDecided(e.a) /\ Skip
    \/ e.op = "intersects_bounds" /\ ObsHits(e.a) /\ LastVal = SetOf(e.val)
    \/ e.op = "sindex_intersects" /\ ObsIndex(e.a) /\ LastVal = SetOf(e.val)
    \/ e.op = "measure" /\ FALSE = MeasureDecided /\ Skip
    \/ e.op = "measure" /\ ObsMeasure /\ {<<t[1], t[2]>> : t \in LastVal} = SetOf(e.val)
    \/ e.op = "sjoin" /\ TRUE = Undecided(RowElems, RKind, RElems) /\ Skip
    \/ e.op = "sjoin" /\ ObsSJoin(e.a) /\ LastVal = SetOf(e.val)
    \/ e.op = "read_bounds" /\ FALSE = AllDecided(e.a) /\ Skip
    \/ e.op = "read_bounds" /\ ObsReadBounds(e.a) /\ LastVal = SetOf(e.val)

TStep == /\ verdict = "running" /\ l <= Len(Traces[tid].ev)
         /\ \/ (Transform(Ev) \/ Observe(Ev)) /\ Consume
            \/ /\ Ev.op = "cx_select" /\ TRUE = Unspecified(Kind, RowElems, Ev.a)          \* undecided selection: the prefix is accepted
               /\ verdict' = "accepted" /\ UNCHANGED <<vars, tid, l>>
TSpec == TInit /\ [][TStep]_tvars
=============================================================================
