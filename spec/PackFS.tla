-------------------------------- MODULE PackFS --------------------------------
(* C10 / C18 / C19: the filesystem protocol of DaskGeoDataFrame.pack_partitions_to_parquet (dask.py), one action per
   filesystem call, tasks as processes, retry wrappers as loops, faults as a process.

   Tasks      main;  proc(i), i in 1..NIn - process_partition of input partition i;  cat(k), k in 0..NOut-1 - concat_parts
              of output partition k.  main creates the directories, then all proc tasks run (any interleaving), then all cat
              tasks (any interleaving), then main renumbers the non-empty parts, writes the two metadata files and reads the
              dataset back.
   Paths      records [loc, k, i, gen]:  DS the dataset directory;  OUT(k) = DS/part.k.parquet;  TMP(k) the temporary directory of
              output partition k (= OUT(k) when Mode = "inside", else outside the dataset, with a fresh `gen` per call when the
              format contains {uuid});  SUB(k, i) = TMP(k)/part<i>.parquet;  INTO(k, j) = OUT(k)/part.j.parquet - what a local
              `move(file, existing directory)` produces;  META, CMETA the dataset-level metadata files.
   fs         path -> [ty : "absent" | "dir" | "file", c : set of row tokens].  Row token 100 i + k = "the rows of input partition i
              that belong to output partition k".  A previous dataset's part j holds the token -(j + 1).
   Faults     a transient fault strikes BEFORE the effect of a filesystem call (OSError / FileNotFoundError; a stale `ls` answer is
              the same thing for the protocol: the listing check fails).  Inside a retry wrapper the wrapper restarts, up to
              RetryMax attempts; outside (or when the budget is exhausted) the whole call raises.
   Deviation  FixEmptyPlaceholder = FALSE models the code before commit "fix: pack_partitions_to_parquet removes the placeholder
              directory of an empty output partition" (selftest: CleanFinal must FAIL for Mode # "inside"). *)
EXTENDS Integers, Sequences, FiniteSets, TLC

CONSTANTS NIn, NOut, Mode, Overwrite, PrevParts, MaxFaults, RetryMax, FixEmptyPlaceholder, AllowRerun

VARIABLES fs, pc, att, wstart, data, result, assign, status, faults, gen, reran, writes, phase
vars == <<fs, pc, att, wstart, data, result, assign, status, faults, gen, reran, writes, phase>>

Ins  == 1..NIn
Outs == 0..(NOut - 1)
MAIN == <<"main", 0>>
Tasks == {MAIN} \cup {<<"proc", i>> : i \in Ins} \cup {<<"cat", k>> : k \in Outs}

(* ---------------------------------- paths ---------------------------------- *)
DS    == [loc |-> "ds",   k |-> -1, i |-> -1, gen |-> 0]
META  == [loc |-> "meta", k |-> -1, i |-> -1, gen |-> 0]
CMETA == [loc |-> "cmeta", k |-> -1, i |-> -1, gen |-> 0]
OUT(k) == [loc |-> "out", k |-> k, i |-> -1, gen |-> 0]
TMPg(k, g) == IF Mode = "inside" THEN OUT(k) ELSE [loc |-> "tmp", k |-> k, i |-> -1, gen |-> IF Mode = "outside_uuid" THEN g ELSE 0]
TMP(k) == TMPg(k, gen)
SUBg(k, i, g) == [TMPg(k, g) EXCEPT !.i = i]
SUB(k, i) == SUBg(k, i, gen)
INTO(k, j) == [loc |-> "out", k |-> k, i |-> 100 + j, gen |-> 0]
PrevOuts == 0..(PrevParts - 1)
AllPaths == {DS, META, CMETA} \cup {OUT(k) : k \in Outs \cup PrevOuts}
            \cup {TMPg(k, g) : k \in Outs, g \in 0..1} \cup {SUBg(k, i, g) : k \in Outs, i \in Ins, g \in 0..1}
            \cup {INTO(k, j) : k \in Outs, j \in Outs}
Parent(p) == IF p.i # -1 THEN [p EXCEPT !.i = -1]
             ELSE IF p.loc \in {"out", "meta", "cmeta"} THEN DS ELSE [loc |-> "root", k |-> -1, i |-> -1, gen |-> 0]
InDataset(p) == p.loc \in {"ds", "out", "meta", "cmeta"}

Absent == [ty |-> "absent", c |-> {}]
Dir    == [ty |-> "dir", c |-> {}]
File(c) == [ty |-> "file", c |-> c]
Tok(i, k) == 100 * i + k

Exists(f, p) == f[p].ty # "absent"
IsDir(f, p)  == f[p].ty = "dir"
IsFile(f, p) == f[p].ty = "file"
ParentOK(f, p) == Parent(p).loc = "root" \/ IsDir(f, Parent(p))
Children(f, d) == {p \in AllPaths : p # d /\ Parent(p) = d /\ Exists(f, p)}
RmRec(f, p) == [q \in AllPaths |-> IF q = p \/ Parent(q) = p THEN Absent ELSE f[q]]           \* rm(p, recursive = True)
MkDirs(f, p) == [q \in AllPaths |-> IF (q = p \/ (q = DS /\ InDataset(p))) /\ ~Exists(f, q) THEN Dir ELSE f[q]]
MoveTarget(f, p1, p2) == IF IsDir(f, p2) THEN INTO(p2.k, p1.k) ELSE p2                        \* local filesystem: move INTO a directory
Move(f, p1, p2) == [q \in AllPaths |-> IF q = MoveTarget(f, p1, p2) THEN f[p1] ELSE IF q = p1 THEN Absent ELSE f[q]]

SubpartsOf(k) == {i \in Ins : k \in assign[i]}                           \* part_num_to_subparts
RowsOf(k) == {Tok(i, k) : i \in SubpartsOf(k)}
NonEmpty == {k \in Outs : SubpartsOf(k) # {}}
Rank(k) == Cardinality({j \in NonEmpty : j < k})                          \* position among the non-empty partitions
M == Cardinality(NonEmpty)

(* ------------------------------ control helpers ------------------------------ *)
Goto(t, l) == pc' = [pc EXCEPT ![t] = l]
Running == status = "running"
(* a filesystem call of task t inside the retry wrapper that starts at label ws: either its effect, or a fault before it *)
Raise(t) == /\ status' = "raised" /\ UNCHANGED <<fs, pc, att, wstart, data, result, assign, gen, reran, writes, phase>>
Fault(t, retried) ==
    /\ faults < MaxFaults /\ faults' = faults + 1
    /\ IF retried /\ att[t] + 1 < RetryMax
       THEN /\ att' = [att EXCEPT ![t] = @ + 1] /\ pc' = [pc EXCEPT ![t] = wstart[t]]
            /\ UNCHANGED <<fs, wstart, data, result, assign, status, gen, reran, writes, phase>>
       ELSE /\ status' = "raised" /\ UNCHANGED <<fs, pc, att, wstart, data, result, assign, gen, reran, writes, phase>>
(* an error the code itself raises inside a wrapper (listing mismatch, deletion not complete): retried like a fault, not counted *)
Retry(t) ==
    IF att[t] + 1 < RetryMax
    THEN /\ att' = [att EXCEPT ![t] = @ + 1] /\ pc' = [pc EXCEPT ![t] = wstart[t]]
         /\ UNCHANGED <<fs, wstart, data, result, assign, status, faults, gen, reran, writes, phase>>
    ELSE /\ status' = "raised" /\ UNCHANGED <<fs, pc, att, wstart, data, result, assign, faults, gen, reran, writes, phase>>
Enter(t, l) == /\ wstart' = [wstart EXCEPT ![t] = l] /\ att' = [att EXCEPT ![t] = 0]       \* entering a new wrapper at label l
Keep == UNCHANGED <<data, result, assign, status, gen, reran, phase>>
NoteWrite(t, p) == writes' = writes \cup {<<t, phase, p>>}

(* ------------------------------ rm_retry(p): exists ; rm ; exists ------------------------------ *)
(* labels: <<base, 1>> exists, <<base, 2>> rm, <<base, 3>> exists;  next = label after the wrapper *)
RmRetry(t, p, base, next) ==
    \/ /\ pc[t] = <<base, 1>>
       /\ \/ /\ IF Exists(fs, p) THEN Goto(t, <<base, 2>>) ELSE Goto(t, next)
             /\ UNCHANGED <<fs, att, wstart, faults, writes>> /\ Keep
          \/ Fault(t, TRUE)
    \/ /\ pc[t] = <<base, 2>>
       /\ \/ /\ fs' = RmRec(fs, p) /\ Goto(t, <<base, 3>>) /\ NoteWrite(t, p)
             /\ UNCHANGED <<att, wstart, faults>> /\ Keep
          \/ Fault(t, TRUE)
    \/ /\ pc[t] = <<base, 3>>
       /\ \/ /\ ~Exists(fs, p) /\ Goto(t, next) /\ UNCHANGED <<fs, att, wstart, faults, writes>> /\ Keep
          \/ /\ Exists(fs, p) /\ Retry(t) /\ UNCHANGED <<>>                 \* "Deletion of .. not yet complete"
          \/ Fault(t, TRUE)

(* ------------------------------------ main ------------------------------------ *)
MainStart ==
    /\ pc[MAIN] = <<"start", 0>>
    /\ IF Overwrite \/ reran THEN Goto(MAIN, <<"ow", 1>>) /\ Enter(MAIN, <<"ow", 1>>)
       ELSE Goto(MAIN, <<"mk", 0>>) /\ Enter(MAIN, <<"mk", 0>>)
    /\ UNCHANGED <<fs, faults, writes>> /\ Keep
MainOverwrite == /\ pc[MAIN][1] = "ow"
                 /\ RmRetry(MAIN, DS, "ow", <<"mk", 0>>)
(* mkdirs_retry(part_dir k) ; mkdirs_retry(tmp_part_dir k): labels <<"mk", 2k>> and <<"mk", 2k + 1>> - each call its own wrapper *)
MainMkdirs ==
    /\ pc[MAIN][1] = "mk"
    /\ LET n == pc[MAIN][2]
           k == n \div 2
           p == IF n % 2 = 0 THEN OUT(k) ELSE TMP(k)
       IN IF n >= 2 * NOut
          THEN /\ Goto(MAIN, <<"wait1", 0>>) /\ phase' = "proc"
               /\ UNCHANGED <<fs, att, wstart, faults, writes, data, result, assign, status, gen, reran>>
          ELSE \/ /\ ~IsFile(fs, p)
                  /\ fs' = MkDirs(fs, p) /\ Goto(MAIN, <<"mk", n + 1>>) /\ Enter(MAIN, <<"mk", n + 1>>) /\ NoteWrite(MAIN, p)
                  /\ UNCHANGED faults /\ Keep
               \/ /\ IsFile(fs, p) /\ Retry(MAIN)                             \* FileExistsError: retried, then raised
               \/ /\ wstart[MAIN] = pc[MAIN] /\ Fault(MAIN, TRUE)
               \/ /\ wstart[MAIN] # pc[MAIN] /\ Enter(MAIN, pc[MAIN])
                  /\ UNCHANGED <<fs, pc, faults, writes>> /\ Keep
MainBarrier1 == /\ pc[MAIN] = <<"wait1", 0>> /\ \A i \in Ins : pc[<<"proc", i>>] = <<"done", 0>>
                /\ Goto(MAIN, <<"wait2", 0>>) /\ phase' = "cat"
                /\ UNCHANGED <<fs, att, wstart, faults, writes, data, result, assign, status, gen, reran>>
MainBarrier2 == /\ pc[MAIN] = <<"wait2", 0>> /\ \A k \in Outs : pc[<<"cat", k>>] = <<"done", 0>>
                /\ Goto(MAIN, <<"mv", 0>>) /\ phase' = "final" /\ Enter(MAIN, <<"mv", 0>>)
                /\ UNCHANGED <<fs, faults, writes, data, result, assign, status, gen, reran>>
(* move_retry(p1, p2) for every non-empty partition k (ascending) whose rank differs from k:  exists(p1) ; move(p1, p2)
   labels <<"mv", 2k>> exists, <<"mv", 2k + 1>> move *)
MainMoves ==
    /\ pc[MAIN][1] = "mv"
    /\ LET n == pc[MAIN][2]
           k == n \div 2
       IN IF k >= NOut THEN /\ (IF M = 0 THEN status' = "raised" /\ UNCHANGED pc           \* zip(*[]) of no parts: ValueError
                               ELSE Goto(MAIN, <<"meta", 0>>) /\ UNCHANGED status)
                            /\ Enter(MAIN, <<"meta", 0>>)
                            /\ UNCHANGED <<fs, faults, writes, data, result, assign, gen, reran, phase>>
          ELSE IF k \notin NonEmpty \/ Rank(k) = k
               THEN /\ Goto(MAIN, <<"mv", 2 * (k + 1)>>) /\ Enter(MAIN, <<"mv", 2 * (k + 1)>>)
                    /\ UNCHANGED <<fs, faults, writes>> /\ Keep
          ELSE IF n % 2 = 0
               THEN \/ /\ IF Exists(fs, OUT(k)) THEN Goto(MAIN, <<"mv", n + 1>>) ELSE Goto(MAIN, <<"mv", 2 * (k + 1)>>)
                       /\ UNCHANGED <<fs, att, wstart, faults, writes>> /\ Keep
                    \/ Fault(MAIN, TRUE)
               ELSE \/ /\ fs' = Move(fs, OUT(k), OUT(Rank(k))) /\ NoteWrite(MAIN, OUT(Rank(k)))
                       /\ Goto(MAIN, <<"mv", 2 * (k + 1)>>) /\ Enter(MAIN, <<"mv", 2 * (k + 1)>>)
                       /\ UNCHANGED faults /\ Keep
                    \/ Fault(MAIN, TRUE)
(* write_metadata_file: open(_metadata, wb);  write_commonmetadata_file: open(part.0.parquet, rb) ; open(_common_metadata, wb) *)
MainMeta ==
    /\ pc[MAIN][1] = "meta"
    /\ LET n == pc[MAIN][2] IN
       CASE n = 0 -> \/ /\ ParentOK(fs, META) /\ ~IsDir(fs, META)
                        /\ fs' = [fs EXCEPT ![META] = File(UNION {result[k] : k \in NonEmpty})] /\ NoteWrite(MAIN, META)
                        /\ Goto(MAIN, <<"meta", 1>>) /\ Enter(MAIN, <<"meta", 1>>) /\ UNCHANGED faults /\ Keep
                     \/ /\ ~(ParentOK(fs, META) /\ ~IsDir(fs, META)) /\ Retry(MAIN)
                     \/ Fault(MAIN, TRUE)
         [] n = 1 -> \/ /\ IsFile(fs, OUT(0)) /\ Goto(MAIN, <<"meta", 2>>) /\ UNCHANGED <<fs, att, wstart, faults, writes>> /\ Keep
                     \/ /\ ~IsFile(fs, OUT(0)) /\ Retry(MAIN)                     \* part.0.parquet missing or a directory
                     \/ Fault(MAIN, TRUE)
         [] n = 2 -> \/ /\ fs' = [fs EXCEPT ![CMETA] = File(UNION {result[k] : k \in NonEmpty})] /\ NoteWrite(MAIN, CMETA)
                        /\ Goto(MAIN, <<"read", 0>>) /\ UNCHANGED <<att, wstart, faults>> /\ Keep
                     \/ Fault(MAIN, TRUE)
(* read_parquet_dask(path): not retried.  exists(ds) ; expand ds/**/*.parquet ; every match must be a file *)
MainRead ==
    /\ pc[MAIN] = <<"read", 0>>
    /\ \/ /\ LET matches == {p \in AllPaths : p.loc = "out" /\ Exists(fs, p)} IN
             IF \E p \in matches : IsDir(fs, p) THEN status' = "raised" ELSE status' = "returned"
          /\ UNCHANGED <<fs, pc, att, wstart, data, result, assign, faults, gen, reran, writes, phase>>
       \/ Fault(MAIN, FALSE)

(* ------------------------------------ proc(i) ------------------------------------ *)
(* for out_partition in groupby (ascending): write_partition(df_part, SUB(k, i)) - label <<"w", k>> *)
NextAssigned(i, k) == IF \E j \in assign[i] : j >= k THEN CHOOSE j \in assign[i] : j >= k /\ \A q \in assign[i] : q >= k => j <= q ELSE NOut
Proc(i) ==
    LET t == <<"proc", i>> IN
    /\ phase = "proc" /\ pc[t][1] = "w"
    /\ LET k == NextAssigned(i, pc[t][2]) IN
       IF k >= NOut THEN Goto(t, <<"done", 0>>) /\ UNCHANGED <<fs, att, wstart, faults, writes>> /\ Keep
       ELSE \/ /\ ParentOK(fs, SUB(k, i)) /\ ~IsDir(fs, SUB(k, i))
               /\ fs' = [fs EXCEPT ![SUB(k, i)] = File({Tok(i, k)})] /\ NoteWrite(t, SUB(k, i))
               /\ Goto(t, <<"w", k + 1>>) /\ Enter(t, <<"w", k + 1>>) /\ UNCHANGED faults /\ Keep
            \/ /\ ~(ParentOK(fs, SUB(k, i)) /\ ~IsDir(fs, SUB(k, i))) /\ pc[t][2] = k /\ Retry(t)
            \/ /\ pc[t][2] = k /\ Fault(t, TRUE)
            \/ /\ pc[t][2] # k /\ Goto(t, <<"w", k>>) /\ Enter(t, <<"w", k>>) /\ UNCHANGED <<fs, faults, writes>> /\ Keep

(* ------------------------------------ cat(k) ------------------------------------ *)
Cat(k) ==
    LET t == <<"cat", k>> IN
    /\ phase = "cat"
    /\ \/ /\ pc[t] = <<"c", 0>>
          /\ IF SubpartsOf(k) = {} THEN Goto(t, <<"erm", 1>>) /\ Enter(t, <<"erm", 1>>)
             ELSE Goto(t, <<"rd", 0>>) /\ Enter(t, <<"rd", 0>>)
          /\ UNCHANGED <<fs, faults, writes>> /\ Keep
       (* empty partition: rm_retry(tmp) [; rm_retry(out)] ; return None *)
       \/ /\ pc[t][1] = "erm" /\ RmRetry(t, TMP(k), "erm", IF FixEmptyPlaceholder THEN <<"erm2", 0>> ELSE <<"done", 0>>)
       \/ /\ pc[t] = <<"erm2", 0>> /\ Goto(t, <<"erm3", 1>>) /\ Enter(t, <<"erm3", 1>>) /\ UNCHANGED <<fs, faults, writes>> /\ Keep
       \/ /\ pc[t][1] = "erm3" /\ RmRetry(t, OUT(k), "erm3", <<"done", 0>>)
       (* read_parquet_retry: isfile(out) [; isdir(tmp)] ; ls(tmp) = expected ; read *)
       \/ /\ pc[t] = <<"rd", 0>>
          /\ \/ /\ IF IsFile(fs, OUT(k)) THEN Goto(t, <<"rd", 1>>) ELSE Goto(t, <<"rd", 2>>)
                /\ UNCHANGED <<fs, att, wstart, faults, writes>> /\ Keep
             \/ Fault(t, TRUE)
       \/ /\ pc[t] = <<"rd", 1>>                                            \* isdir(tmp): FALSE -> the work was already done
          /\ \/ /\ IF ~IsDir(fs, TMP(k)) THEN Goto(t, <<"rd", 4>>) ELSE Goto(t, <<"rd", 2>>)
                /\ UNCHANGED <<fs, att, wstart, faults, writes>> /\ Keep
             \/ Fault(t, TRUE)
       \/ /\ pc[t] = <<"rd", 2>>                                            \* ls(tmp) must equal the expected sub-part set
          /\ \/ /\ IsDir(fs, TMP(k)) /\ Children(fs, TMP(k)) = {SUB(k, i) : i \in SubpartsOf(k)}
                /\ Goto(t, <<"rd", 3>>) /\ UNCHANGED <<fs, att, wstart, faults, writes>> /\ Keep
             \/ /\ ~(IsDir(fs, TMP(k)) /\ Children(fs, TMP(k)) = {SUB(k, i) : i \in SubpartsOf(k)}) /\ Retry(t)
             \/ Fault(t, TRUE)
       (* read_parquet(tmp directory) / read_parquet(out file): the reader's own filesystem calls; a fault in any of them is raised
          inside the wrapper *)
       \/ /\ pc[t] = <<"rd", 3>>
          /\ \/ /\ data' = [data EXCEPT ![k] = UNION {fs[p].c : p \in Children(fs, TMP(k))}] /\ Goto(t, <<"rmt0", 0>>)
                /\ UNCHANGED <<fs, att, wstart, faults, writes, result, assign, status, gen, reran, phase>>
             \/ Fault(t, TRUE)
       \/ /\ pc[t] = <<"rd", 4>>
          /\ \/ /\ data' = [data EXCEPT ![k] = fs[OUT(k)].c] /\ Goto(t, <<"rmt0", 0>>)
                /\ UNCHANGED <<fs, att, wstart, faults, writes, result, assign, status, gen, reran, phase>>
             \/ Fault(t, TRUE)
       \/ /\ pc[t] = <<"rmt0", 0>> /\ Goto(t, <<"rmt", 1>>) /\ Enter(t, <<"rmt", 1>>) /\ UNCHANGED <<fs, faults, writes>> /\ Keep
       \/ /\ pc[t][1] = "rmt" /\ RmRetry(t, TMP(k), "rmt", <<"rmo0", 0>>)
       \/ /\ pc[t] = <<"rmo0", 0>> /\ Goto(t, <<"rmo", 1>>) /\ Enter(t, <<"rmo", 1>>) /\ UNCHANGED <<fs, faults, writes>> /\ Keep
       \/ /\ pc[t][1] = "rmo" /\ RmRetry(t, OUT(k), "rmo", <<"wr0", 0>>)
       \/ /\ pc[t] = <<"wr0", 0>> /\ Goto(t, <<"wr", 0>>) /\ Enter(t, <<"wr", 0>>) /\ UNCHANGED <<fs, faults, writes>> /\ Keep
       (* write_concatted_part: open(out, wb) *)
       \/ /\ pc[t] = <<"wr", 0>>
          /\ \/ /\ ParentOK(fs, OUT(k)) /\ ~IsDir(fs, OUT(k))
                /\ fs' = [fs EXCEPT ![OUT(k)] = File(data[k])] /\ NoteWrite(t, OUT(k))
                /\ result' = [result EXCEPT ![k] = data[k]] /\ Goto(t, <<"done", 0>>)
                /\ UNCHANGED <<att, wstart, faults, data, assign, status, gen, reran, phase>>
             \/ /\ ~(ParentOK(fs, OUT(k)) /\ ~IsDir(fs, OUT(k))) /\ Retry(t)
             \/ Fault(t, TRUE)

(* ------------------------------------ rerun after an aborted call ------------------------------------ *)
Rerun == /\ AllowRerun /\ status = "raised" /\ ~reran
         /\ reran' = TRUE /\ status' = "running" /\ gen' = 1 /\ faults' = MaxFaults            \* fault-free repeat, overwrite = True
         /\ pc' = [t \in Tasks |-> IF t = MAIN THEN <<"start", 0>> ELSE IF t[1] = "proc" THEN <<"w", 0>> ELSE <<"c", 0>>]
         /\ att' = [t \in Tasks |-> 0] /\ wstart' = pc'
         /\ data' = [k \in Outs |-> {}] /\ result' = [k \in Outs |-> {}] /\ phase' = "main" /\ writes' = {}
         /\ UNCHANGED <<fs, assign>>

InitRest ==
        /\ fs = [p \in AllPaths |-> IF PrevParts > 0 /\ p = DS THEN Dir
                                     ELSE IF PrevParts > 0 /\ p \in {META, CMETA} THEN File({-100})
                                     ELSE IF p \in {OUT(j) : j \in PrevOuts} THEN File({-(p.k + 1)}) ELSE Absent]
        /\ pc = [t \in Tasks |-> IF t = MAIN THEN <<"start", 0>> ELSE IF t[1] = "proc" THEN <<"w", 0>> ELSE <<"c", 0>>]
        /\ att = [t \in Tasks |-> 0] /\ wstart = pc
        /\ data = [k \in Outs |-> {}] /\ result = [k \in Outs |-> {}]
        /\ status = "running" /\ faults = 0 /\ gen = 0 /\ reran = FALSE /\ writes = {} /\ phase = "main"
Init == assign \in [Ins -> SUBSET Outs] /\ InitRest
Next == \/ /\ Running /\ \/ MainStart \/ MainOverwrite \/ MainMkdirs \/ MainBarrier1 \/ MainBarrier2 \/ MainMoves \/ MainMeta \/ MainRead
                         \/ \E i \in Ins : Proc(i)
                         \/ \E k \in Outs : Cat(k)
        \/ Rerun
Spec == Init /\ [][Next]_vars

(* ------------------------------------ binding to the implementation ------------------------------------ *)
(* the filesystem call task t performs at its current label: [op, p1, p2]; op = "none" for labels without a call
   (dispatch, barriers, entering a wrapper, the final read whose calls are made by the readers).  Trace validation
   requires the k-th recorded call of a task to be exactly this. *)
NoPath == [loc |-> "none", k |-> -1, i |-> -1, gen |-> 0]
Call(op, p) == [op |-> op, p1 |-> p, p2 |-> NoPath]
RmCall(t, p, base) == IF pc[t] = <<base, 2>> THEN Call("rm", p) ELSE Call("exists", p)
CallAt(t) ==
    IF t = MAIN THEN
        CASE pc[t][1] = "ow" -> RmCall(t, DS, "ow")
          [] pc[t][1] = "mk" /\ pc[t][2] < 2 * NOut /\ wstart[t] = pc[t] ->
                 Call("makedirs", IF pc[t][2] % 2 = 0 THEN OUT(pc[t][2] \div 2) ELSE TMP(pc[t][2] \div 2))
          [] pc[t][1] = "mv" /\ pc[t][2] \div 2 < NOut /\ (pc[t][2] \div 2) \in NonEmpty /\ Rank(pc[t][2] \div 2) # pc[t][2] \div 2 ->
                 IF pc[t][2] % 2 = 0 THEN Call("exists", OUT(pc[t][2] \div 2))
                 ELSE [op |-> "move", p1 |-> OUT(pc[t][2] \div 2), p2 |-> OUT(Rank(pc[t][2] \div 2))]
          [] pc[t] = <<"meta", 0>> -> Call("open:wb", META)
          [] pc[t] = <<"meta", 1>> -> Call("open:rb", OUT(0))
          [] pc[t] = <<"meta", 2>> -> Call("open:wb", CMETA)
          [] OTHER -> Call("none", NoPath)
    ELSE IF t[1] = "proc" THEN
        (IF phase = "proc" /\ pc[t][1] = "w" /\ NextAssigned(t[2], pc[t][2]) < NOut /\ pc[t][2] = NextAssigned(t[2], pc[t][2])
         THEN Call("open:wb", SUB(pc[t][2], t[2])) ELSE Call("none", NoPath))
    ELSE
        CASE pc[t][1] = "erm"  -> RmCall(t, TMP(t[2]), "erm")
          [] pc[t][1] = "erm3" -> RmCall(t, OUT(t[2]), "erm3")
          [] pc[t] = <<"rd", 0>> -> Call("isfile", OUT(t[2]))
          [] pc[t] = <<"rd", 1>> -> Call("isdir", TMP(t[2]))
          [] pc[t] = <<"rd", 2>> -> Call("ls", TMP(t[2]))
          [] pc[t][1] = "rmt"  -> RmCall(t, TMP(t[2]), "rmt")
          [] pc[t][1] = "rmo"  -> RmCall(t, OUT(t[2]), "rmo")
          [] pc[t] = <<"wr", 0>> -> Call("open:wb", OUT(t[2]))
          [] OTHER -> Call("none", NoPath)
(* labels at which a task is inside a reader (pyarrow / read_parquet) making its own filesystem calls *)
Reading(t) == IF t = MAIN THEN pc[t] = <<"read", 0>> ELSE t[1] = "cat" /\ pc[t] \in {<<"rd", 3>>, <<"rd", 4>>}
(* one step of task t *)
TaskStep(t) == /\ Running
               /\ IF t = MAIN THEN MainStart \/ MainOverwrite \/ MainMkdirs \/ MainBarrier1 \/ MainBarrier2 \/ MainMoves \/ MainMeta \/ MainRead
                  ELSE IF t[1] = "proc" THEN Proc(t[2]) ELSE Cat(t[2])

(* ------------------------------------ properties ------------------------------------ *)
(* the dataset the fault-free run must leave: parts 0 .. M-1 as plain files holding the rows of the M non-empty partitions in
   order, the two metadata files, nothing else in the dataset and nothing at any temporary location of THIS call *)
NonEmptySeq == [j \in 0..(M - 1) |-> CHOOSE k \in NonEmpty : Rank(k) = j]
DatasetRight(f) ==
    /\ IsDir(f, DS)
    /\ \A j \in 0..(M - 1) : f[OUT(j)] = File(RowsOf(NonEmptySeq[j]))
    /\ f[META] = File(UNION {RowsOf(k) : k \in NonEmpty}) /\ f[CMETA] = File(UNION {RowsOf(k) : k \in NonEmpty})
    /\ \A p \in AllPaths : (InDataset(p) /\ Exists(f, p)) => p \in {DS, META, CMETA} \cup {OUT(j) : j \in 0..(M - 1)}
NoTempLeft(f) == \A p \in AllPaths : (p.loc = "tmp" /\ (Mode # "outside_uuid" \/ p.gen = gen)) => ~Exists(f, p)
(* C10 (no faults) and C19 (with faults): a call that returns leaves exactly that *)
CleanFinal == status = "returned" => DatasetRight(fs) /\ NoTempLeft(fs)
(* C19: a repeat with overwrite = True after an aborted call restores the fault-free dataset *)
RerunRestores == (status = "returned" /\ reran) => DatasetRight(fs)
(* C18: no path is written by two different tasks of the same phase (proc tasks own their sub-part files, a cat task owns
   its output partition) *)
NoSharedWrites == \A w1, w2 \in writes : (w1[3] = w2[3] /\ w1[2] = w2[2]) => w1[1] = w2[1]
(* the fault-free run of a non-degenerate configuration returns (used for vacuity control) *)
Returns == (MaxFaults = 0 /\ status = "raised") => (M = 0 \/ (PrevParts > 0 /\ ~Overwrite))
=============================================================================
