------------------------------ MODULE ParquetDS ------------------------------
(* C11 / C12: parquet datasets of geo frames.
   An abstract frame (what a user can observe) is a record
      [type, cols, iname, ivals, geo, other]
   type   "GeoDataFrame" | "DataFrame" | ...        cols   column names in order
   iname  index name ("" = unnamed)                  ivals  index values (integers / tokens)
   geo    sequence of [col, kind, subtype, elems]    other  sequence of [col, vals]
   P level (C11): a round trip is the identity on this record; columns= keeps exactly the requested columns, in the
   requested order, plus the index; several datasets read through a list or glob are concatenated in path order.
   P level (C12): the recorded bounds of partition k (in load order) are the total bounds of the rows stored in it,
   for every geometry column; bounds= keeps exactly the partitions whose recorded extent of the active geometry
   overlaps the box and reports the bounds of the partitions kept, re-indexed from 0.
   D level (C12): partition numbers travel as STRINGS - file names part.<j>.parquet and JSON object keys "<j>" -
   and must be brought back to numeric order (natural sort of the pieces; astype(int) + sort_index of the bounds
   table): LoadOrder models exactly that and TLC checks it against the identity for up to 16 partitions. *)
EXTENDS SPMeasure

(* ---------------- C11 ---------------- *)
RoundTripOK(b, a) ==
    /\ a.type = "GeoDataFrame"
    /\ a.cols = b.cols /\ a.iname = b.iname /\ a.ivals = b.ivals
    /\ a.geo = b.geo /\ a.other = b.other
RoundTripWhy(b, a) ==
    IF a.type # "GeoDataFrame" THEN "type"
    ELSE IF a.cols # b.cols THEN "columns"
    ELSE IF a.iname # b.iname THEN "index-name"
    ELSE IF a.ivals # b.ivals THEN "index-values"
    ELSE IF Len(a.geo) # Len(b.geo) THEN "geometry-columns"
    ELSE IF \E i \in 1..Len(a.geo) : a.geo[i].kind # b.geo[i].kind \/ a.geo[i].col # b.geo[i].col THEN "geometry-kind"
    ELSE IF \E i \in 1..Len(a.geo) : a.geo[i].subtype # b.geo[i].subtype THEN "coordinate-subtype"
    ELSE IF \E i \in 1..Len(a.geo) : a.geo[i].elems # b.geo[i].elems THEN "geometry-elements"
    ELSE IF a.other # b.other THEN "other-columns"
    ELSE "ok"
(* frame b restricted to the requested columns, in the requested order (index kept) *)
Project(b, want) ==
    [ type |-> b.type, cols |-> want, iname |-> b.iname, ivals |-> b.ivals,
      geo   |-> SelectSeq([i \in 1..Len(want) |-> IF \E g \in 1..Len(b.geo) : b.geo[g].col = want[i]
                                                   THEN b.geo[CHOOSE g \in 1..Len(b.geo) : b.geo[g].col = want[i]]
                                                   ELSE [col |-> "", kind |-> "", subtype |-> "", elems |-> <<>>]],
                         LAMBDA x : x.col # ""),
      other |-> SelectSeq([i \in 1..Len(want) |-> IF \E o \in 1..Len(b.other) : b.other[o].col = want[i]
                                                   THEN b.other[CHOOSE o \in 1..Len(b.other) : b.other[o].col = want[i]]
                                                   ELSE [col |-> "", vals |-> <<>>]],
                         LAMBDA x : x.col # "") ]
(* concatenation of frames with equal schema, in the given order *)
RECURSIVE ConcatFrames(_)
ConcatFrames(fs) ==
    IF Len(fs) = 1 THEN fs[1]
    ELSE LET h == fs[1]
             t == ConcatFrames(Tail(fs))
         IN [ type |-> h.type, cols |-> h.cols, iname |-> h.iname, ivals |-> h.ivals \o t.ivals,
              geo |-> [i \in 1..Len(h.geo) |-> [col |-> h.geo[i].col, kind |-> h.geo[i].kind, subtype |-> h.geo[i].subtype,
                                                 elems |-> h.geo[i].elems \o t.geo[i].elems]],
              other |-> [i \in 1..Len(h.other) |-> [col |-> h.other[i].col, vals |-> h.other[i].vals \o t.other[i].vals]] ]

(* ---------------- C12 ---------------- *)
(* recorded bounds vs the rows stored: parts[k] = the elements of one geometry column in load order *)
BoundsOK(parts, recorded) == /\ Len(recorded) = Len(parts)
                             /\ \A k \in 1..Len(parts) : recorded[k] = TotalBounds(parts[k])
BoxOverlaps(r, B) == ~(Lt(r[3], B[1]) \/ Lt(r[4], B[2]) \/ Gt(r[1], B[3]) \/ Gt(r[2], B[4]))    \* as parquet.py: NaN extents are kept
Kept(recorded, B0) == LET B == <<Min2(B0[1], B0[3]), Min2(B0[2], B0[4]), Max2(B0[1], B0[3]), Max2(B0[2], B0[4])>> IN
                      SelectSeq([k \in 1..Len(recorded) |-> k], LAMBDA k : BoxOverlaps(recorded[k], B))
DefinedOverlap(r, B) == \A i \in 1..4 : ~IsNaN(r[i])

(* D: partition numbers as strings.  A name is the decimal digit sequence of the number. *)
RECURSIVE Digits(_)
Digits(n) == IF n < 10 THEN <<n>> ELSE Digits(n \div 10) \o <<n % 10>>
RECURSIVE LexLt(_, _)
LexLt(a, b) == IF b = <<>> THEN FALSE ELSE IF a = <<>> THEN TRUE
               ELSE IF Head(a) < Head(b) THEN TRUE ELSE IF Head(a) > Head(b) THEN FALSE ELSE LexLt(Tail(a), Tail(b))
RECURSIVE NumOf(_)
NumOf(ds) == IF ds = <<>> THEN 0 ELSE NumOf(SubSeq(ds, 1, Len(ds) - 1)) * 10 + ds[Len(ds)]
(* a directory listing returns names in lexicographic order; the JSON keys arrive in any order (here: lexicographic) *)
LexSorted(n) == SortSeq([j \in 1..n |-> Digits(j - 1)], LexLt)
(* natural sort of the pieces / astype(int) + sort_index of the bounds table: both order by numeric value *)
NaturalSorted(names) == SortSeq(names, LAMBDA a, b : NumOf(a) < NumOf(b))
LoadOrder(n, natural) == LET listed == LexSorted(n) IN
                         [j \in 1..n |-> NumOf((IF natural THEN NaturalSorted(listed) ELSE listed)[j])]
LoadOrderIsNumeric(n) == LoadOrder(n, TRUE) = [j \in 1..n |-> j - 1]
=============================================================================
