-------------------------------- MODULE Inert --------------------------------
(* C17: missing and empty geometries are inert.  The property is a relation between the results of an operation on
   an array / frame A and on A with inert rows inserted at positions J (1-based positions in the EXTENDED object):
       row-wise results   (bounds rows, length, area, predicates, Hilbert distances with fixed total bounds):
                          the extended result restricted to the old rows is the base result; inert rows give the
                          inert value where the property fixes one (False, NaN row, NaN for a missing element)
       aggregate results  (total_bounds): equal
       selections         (index queries, cx, sjoin pairs): no inert position is selected and the selected positions
                          are exactly the images of the base selection under the position shift
   Results are compared as opaque tokens (any value representation may be logged), so the relation needs no
   geometric oracle and holds for arbitrary floating-point coordinates. *)
EXTENDS Integers, Sequences, FiniteSets

(* old position (1-based, in the base object) -> position in the extended object, for the ascending set J *)
RECURSIVE ShiftUp(_, _, _)
ShiftUp(p, J, k) == IF k \in J THEN ShiftUp(p, J, k + 1)          \* k: candidate extended position
                    ELSE IF p = 1 THEN k ELSE ShiftUp(p - 1, J, k + 1)
NewPos(p, J) == ShiftUp(p, J, 1)
Kept(n, J) == {k \in 1..n : k \notin J}                          \* extended positions of the old rows

RowwiseOK(base, ext, J, inertTok, fixed) ==
    /\ Len(ext) = Len(base) + Cardinality(J)
    /\ \A p \in 1..Len(base) : ext[NewPos(p, J)] = base[p]
    /\ fixed => \A k \in J : ext[k] = inertTok
AggregateOK(base, ext) == base = ext
SelectionOK(baseSel, extSel, J) ==                               \* selections as sequences of positions (order as returned)
    /\ \A i \in 1..Len(extSel) : extSel[i] \notin J
    /\ {extSel[i] : i \in 1..Len(extSel)} = {NewPos(baseSel[i], J) : i \in 1..Len(baseSel)}
    /\ Len(extSel) = Len(baseSel)
PairsOK(basePairs, extPairs, JL, JR) ==                          \* sjoin: (left position, right position), 0 = unmatched side
    LET img(p) == << IF p[1] = 0 THEN 0 ELSE NewPos(p[1], JL), IF p[2] = 0 THEN 0 ELSE NewPos(p[2], JR) >>
        real == {i \in 1..Len(extPairs) : extPairs[i][1] \notin JL /\ extPairs[i][2] \notin JR}
    IN /\ \A i \in 1..Len(extPairs) : ~(extPairs[i][1] \in JL /\ extPairs[i][2] # 0)       \* an inert row is never matched
       /\ \A i \in 1..Len(extPairs) : ~(extPairs[i][2] \in JR /\ extPairs[i][1] # 0)
       /\ {extPairs[i] : i \in real} = {img(basePairs[i]) : i \in 1..Len(basePairs)}
       /\ Cardinality(real) = Len(basePairs)
=============================================================================
