---------------------------- MODULE GeoCatalogue ----------------------------
(* Small catalogues of elements per geometry kind (vertices on the grid 0..4), used by the stateful models
   (C04, C05, C06, C09, C16, C17, C20).  Every derived quantity of a catalogue element is computed by TLC from
   the P-level definitions, never entered by hand. *)
EXTENDS SPGeom

(* catalogues: a few elements per kind incl. a missing one (NULL), an empty one and a duplicate *)
P(x, y) == <<x, y>>
SqCCW(a, b, d) == << P(a, b), P(a + d, b), P(a + d, b + d), P(a, b + d), P(a, b) >>
SqCW(a, b, d)  == << P(a, b), P(a, b + d), P(a + d, b + d), P(a + d, b), P(a, b) >>
CatPoint == << El(<< << <<P(0, 0)>> >> >>), El(<< << <<P(2, 2)>> >> >>), NULL, El(<< << <<P(4, 2)>> >> >>),
               El(<< << <<P(NaN, NaN)>> >> >>), El(<< << <<P(2, 2)>> >> >>), El(<< << <<P(4, 4)>> >> >>) >>
CatMultiPoint == << El(<< << <<P(0, 0), P(4, 4)>> >> >>), NULL, El(<< << <<P(2, 2)>> >> >>), El(<< << <<>> >> >>),
                    El(<< << <<P(4, 0), P(4, 2), P(2, 0)>> >> >>), El(<< << <<P(2, 2)>> >> >>) >>
CatLine == << El(<< << <<P(0, 0), P(4, 4)>> >> >>), El(<< << <<P(0, 4), P(2, 4)>> >> >>), NULL,
              El(<< << <<P(4, 0), P(4, 2), P(2, 2)>> >> >>), El(<< << <<>> >> >>), El(<< << <<P(2, 2)>> >> >>),
              El(<< << <<P(0, 4), P(2, 4)>> >> >>), El(<< << <<P(0, 4), P(4, 0)>> >> >>) >>
CatRing == << El(<< << SqCCW(0, 0, 4) >> >>), NULL, El(<< << <<P(0, 0), P(2, 0), P(0, 2), P(0, 0)>> >> >>), El(<< << <<>> >> >>),
              El(<< << SqCW(3, 3, 1) >> >>) >>
CatMultiLine == << El(<< << <<P(0, 0), P(4, 4)>>, <<P(0, 4), P(2, 4)>> >> >>), NULL, El(<< <<>> >>), El(<< << <<>> >> >>),
                   El(<< << <<P(4, 0), P(4, 2)>> >> >>), El(<< << <<P(2, 2), P(2, 3)>>, <<>> >> >>),
                   El(<< << <<P(0, 4), P(4, 0)>>, <<P(0, 0), P(1, 0)>> >> >>) >>
CatPolygon == << El(<< << SqCCW(0, 0, 4), SqCW(1, 1, 2) >> >>), El(<< << <<P(0, 0), P(2, 0), P(0, 2), P(0, 0)>> >> >>), NULL,
                 El(<< <<>> >>), El(<< << SqCW(3, 3, 1) >> >>), El(<< << <<>> >> >>), El(<< << SqCCW(0, 0, 4), SqCW(1, 1, 2) >> >>),
                 El(<< << <<P(0, 0), P(4, 0), P(4, 4), P(0, 0)>> >> >>), El(<< << <<P(0, 0), P(4, 4), P(0, 4), P(0, 0)>> >> >>) >>
CatMultiPolygon == << El(<< << <<P(0, 0), P(2, 0), P(0, 2), P(0, 0)>> >>, << SqCCW(3, 3, 1) >> >>), NULL, El(<<>>),
                      El(<< << SqCCW(0, 0, 4), SqCW(1, 1, 2) >>, << SqCCW(2, 2, 1) >> >>), El(<< <<>> >>), El(<< << SqCW(3, 0, 1) >> >>),
                      El(<< << <<P(0, 0), P(4, 0), P(4, 4), P(0, 0)>> >> >>), El(<< << <<P(0, 0), P(4, 4), P(0, 4), P(0, 0)>> >>, << SqCW(3, 0, 1) >> >>) >>

CatOf(kind) == CASE kind = "point" -> CatPoint [] kind = "multipoint" -> CatMultiPoint [] kind = "line" -> CatLine
                 [] kind = "ring" -> CatRing [] kind = "multiline" -> CatMultiLine [] kind = "polygon" -> CatPolygon
                 [] kind = "multipolygon" -> CatMultiPolygon
=============================================================================
