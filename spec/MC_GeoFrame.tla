----------------------------- MODULE MC_GeoFrame -----------------------------
(* Exhaustive small-scope instance of GeoFrame: catalogue per kind on the 3 x 3 vertex grid (incl. a missing and
   an empty element and a duplicate), objects of <= N rows, page sizes 1..MaxPS, every key permutation, the key
   set below (present / omitted / reversed ends, scalars, ends beyond the data extent).  A behaviour is
   Init ; [Build] ; [Slice | Copy] ; [Build] ; Cx - every state reached by Cx is dumped and replayed. *)
EXTENDS GeoFrame, GeoCatalogue, TLC
CONSTANTS N, MaxPS, Shard, NShards, KeyStride, AllPerms

AxisSpecs == << <<OMIT, OMIT, 0>>, <<1, 3, 0>>, <<3, 1, 0>>, <<1, OMIT, 0>>, <<OMIT, 3, 0>>, <<-1, 1, 0>>,
                <<0, 4, 0>>, <<2, 2, 1>>, <<5, OMIT, 0>>, <<OMIT, -1, 0>>, <<3, 5, 0>> >>
KeySeq == [k \in 1..(Len(AxisSpecs) * Len(AxisSpecs)) |->
             << AxisSpecs[((k - 1) \div Len(AxisSpecs)) + 1], AxisSpecs[((k - 1) % Len(AxisSpecs)) + 1] >>]
Keys == {KeySeq[k] : k \in {j \in 1..Len(KeySeq) : j % KeyStride = 0}}

Hash(s) == LET RECURSIVE H(_)
               H(i) == IF i > Len(s) THEN 0 ELSE (i * s[i] + 7 * H(i + 1)) % 100003
           IN H(1)
Init == /\ rows \in UNION {[1..k -> 1..Len(Elems)] : k \in 0..N}
        /\ Hash(rows) % NShards = Shard
        /\ rows0 = rows
        /\ src = [i \in 1..Len(rows) |-> i]
        /\ sidx = NONE /\ hist = <<>>
        /\ out = [done |-> FALSE, unspec |-> FALSE, want |-> <<>>, got |-> <<>>]
Next == /\ ~out.done /\ Len(hist) < MaxOps
        /\ \/ \E ps \in 1..MaxPS : \E perm \in (IF AllPerms THEN Perms(SelectRows(BoundsRows(ElemsOf(rows)), 0, TRUE))
                                                       ELSE {SelectRows(BoundsRows(ElemsOf(rows)), 0, TRUE)}) : Build(ps, perm)
           \/ (\A i \in 1..Len(hist) : hist[i].op \notin {"slice", "copy", "step"}) /\
              (\/ \E a \in 0..Len(rows), b \in 0..Len(rows) : a <= b /\ (a > 0 \/ b < Len(rows)) /\ Slice(a, b)
               \/ Copy
               \/ \E st \in {-1, 2} : Stepped(st))
           \/ \E key \in Keys : Cx(key)
=============================================================================
