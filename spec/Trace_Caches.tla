------------------------------ MODULE Trace_Caches ------------------------------
(* C18, code -> spec: cache trace points recorded from real multi-threaded runs (ordered by the recorder's sequence number):
     {ev: "check" | "assign" | "use", cache, obj, thread, hit: 0 | 1, value}
   The caches are lock-free, so a trace point cannot be atomic with the attribute store it reports: the "assign" event of the
   building thread may be logged AFTER another thread has already seen the new value.  The store itself is therefore an internal
   step of the specification, placed anywhere between the builder's missing "check" and its "assign" event.  Per (cache, obj):
     - a "check" that hits needs a value already assigned or a builder in flight (its store may have happened);
     - every "use" returns a value that some thread assigns to THIS cache (checked when the log is complete) - never None,
       never another object's value: exactly Caches!UseSeesOwnAnswer for Pattern = "single_store";
     - an "assign" stores a complete (non-null) value and belongs to a builder in flight. *)
EXTENDS Integers, Sequences, FiniteSets, Json, IOUtils, TLC
TraceLog == ndJsonDeserialize(IOEnv.TRACE_FILE)
VARIABLES l, assigned, pending, usedvals, nbuilt, ok
Key(e) == <<e.cache, e.obj>>
Init == l = 1 /\ assigned = {} /\ pending = {} /\ usedvals = {} /\ nbuilt = {} /\ ok = TRUE
Next == /\ l <= Len(TraceLog)
        /\ LET e == TraceLog[l] IN
           /\ assigned' = IF e.ev = "assign" THEN assigned \cup {<<Key(e), e.value>>} ELSE assigned
           /\ pending' = IF e.ev = "check" /\ e.hit = 0 THEN pending \cup {<<Key(e), e.thread>>}
                         ELSE IF e.ev = "assign" THEN pending \ {<<Key(e), e.thread>>} ELSE pending
           /\ usedvals' = IF e.ev = "use" THEN usedvals \cup {<<Key(e), e.value>>} ELSE usedvals
           /\ nbuilt' = IF e.ev = "assign" THEN nbuilt \cup {<<Key(e), l>>} ELSE nbuilt        \* one entry per completed build
           /\ ok' = (ok /\ CASE e.ev = "check"  -> (e.hit = 1) => (\E a \in assigned : a[1] = Key(e)) \/ (\E p \in pending : p[1] = Key(e))
                             [] e.ev = "assign" -> e.value # 0 /\ <<Key(e), e.thread>> \in pending
                             [] e.ev = "use"    -> e.value # 0)
        /\ l' = l + 1
AllOK == ok
(* when the log is complete: the values seen for a cache (returned by a use, or found in the attribute by an "assign" trace point)
   are objects built for THAT cache: there are at most as many distinct ones as completed builds of it.
   (The "assign" trace point reads the attribute AFTER the store, so when two builders race the first one may log the second one's
   object while a third thread has already used the first one's: demanding usedvals \subseteq assigned - the first version of this
   property - raised a false alarm once in a 71 000-event trace, DESIGN 9.  A use of another cache's object, a half-built or a
   None value still breaks the count or the non-null clause.) *)
KeysSeen == {p[1] : p \in usedvals \cup assigned}
UsesExplained == (l = Len(TraceLog) + 1) =>
                    \A k \in KeysSeen : Cardinality({p[2] : p \in {q \in usedvals \cup assigned : q[1] = k}}) <= Cardinality({b \in nbuilt : b[1] = k})
=============================================================================
