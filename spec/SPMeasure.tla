------------------------------ MODULE SPMeasure ------------------------------
(* P level for C13 (bounds), C14 (length, area, boundary) and C15 (oriented), on the abstract elements
   of SPGeom (g = parts -> rings -> vertices).  Areas are twice the area (integers); lengths are given as
   the sequence of squared segment lengths (exact), with an exact integer length when every squared
   length is a perfect square. *)
EXTENDS SPGeom, SequencesExt

AllRings(g) == FlattenSeq(g)
XS(g) == UNION {{AllRings(g)[r][i][1] : i \in 1..Len(AllRings(g)[r])} : r \in 1..Len(AllRings(g))}
YS(g) == UNION {{AllRings(g)[r][i][2] : i \in 1..Len(AllRings(g)[r])} : r \in 1..Len(AllRings(g))}

NaNRow == <<NaN, NaN, NaN, NaN>>
(* C13: tight extents over the finite coordinates, axis by axis *)
Bounds(e) == IF e.null THEN NaNRow ELSE <<FinMin(XS(e.g)), FinMin(YS(e.g)), FinMax(XS(e.g)), FinMax(YS(e.g))>>
TotalBounds(elems) ==
    LET V  == {i \in 1..Len(elems) : ~elems[i].null}
        xs == UNION {XS(elems[i].g) : i \in V}
        ys == UNION {YS(elems[i].g) : i \in V}
    IN <<FinMin(xs), FinMin(ys), FinMax(xs), FinMax(ys)>>

(* C14: shoelace area of a closed ring, as TWICE the signed area (counter-clockwise positive) *)
RingArea2(ring) == IF Len(ring) < 3 THEN 0 ELSE TwiceArea(ring)
RECURSIVE SumArea2(_)
SumArea2(rings) == IF rings = <<>> THEN 0 ELSE RingArea2(Head(rings)) + SumArea2(Tail(rings))
Area2(kind, e) == IF kind \in PolyKinds THEN SumArea2(AllRings(e.g)) ELSE 0
RingsClosed(g) == \A r \in 1..Len(AllRings(g)) : Len(AllRings(g)[r]) < 3 \/ AllRings(g)[r][1] = AllRings(g)[r][Len(AllRings(g)[r])]

(* squared lengths of the segments of a vertex sequence; a segment touching a non-finite vertex is absent *)
VFinite(v) == IsFinite(v[1]) /\ IsFinite(v[2])
RECURSIVE SqLensRing(_, _)
SqLensRing(ring, i) ==
    IF i >= Len(ring) THEN <<>>
    ELSE (IF VFinite(ring[i]) /\ VFinite(ring[i + 1])
          THEN << (ring[i + 1][1] - ring[i][1]) * (ring[i + 1][1] - ring[i][1])
                  + (ring[i + 1][2] - ring[i][2]) * (ring[i + 1][2] - ring[i][2]) >>
          ELSE <<>>) \o SqLensRing(ring, i + 1)
RECURSIVE SqLensRings(_)
SqLensRings(rings) == IF rings = <<>> THEN <<>> ELSE SqLensRing(Head(rings), 1) \o SqLensRings(Tail(rings))
SqLens(kind, e) == IF kind \in PointKinds THEN <<>> ELSE SqLensRings(AllRings(e.g))

(* boundary of a polygon / multipolygon: the multiline of exactly its rings; missing stays missing *)
Boundary(e) == IF e.null THEN NULL ELSE El(<<AllRings(e.g)>>)

(* C15: ring direction normalised - shells counter-clockwise, holes clockwise; rings of zero area have no
   direction and are left alone (which is what makes the operation idempotent) *)
OrientRing(ring, shell) ==
    LET a == RingArea2(ring) IN
    IF a = 0 THEN ring ELSE IF (a > 0) = shell THEN ring ELSE Reverse(ring)
OrientPart(rings) == [r \in 1..Len(rings) |-> OrientRing(rings[r], r = 1)]
Oriented(e) == IF e.null THEN NULL ELSE El([p \in 1..Len(e.g) |-> OrientPart(e.g[p])])

(* theorems about P itself, checked by TLC on every element of the scope (MC_Measure) *)
OrientIdempotent(e) == Oriented(Oriented(e)) = Oriented(e)
OrientKeepsShape(e) == LET o == Oriented(e) IN
    /\ o.null = e.null
    /\ ~e.null => /\ Len(o.g) = Len(e.g)
                  /\ \A p \in 1..Len(e.g) :
                       /\ Len(o.g[p]) = Len(e.g[p])
                       /\ \A r \in 1..Len(e.g[p]) : o.g[p][r] = e.g[p][r] \/ o.g[p][r] = Reverse(e.g[p][r])
OrientSigns(e) == LET o == Oriented(e) IN
    ~e.null => \A p \in 1..Len(o.g) : \A r \in 1..Len(o.g[p]) :
                   IF r = 1 THEN RingArea2(o.g[p][r]) >= 0 ELSE RingArea2(o.g[p][r]) <= 0
=============================================================================
