------------------------------ MODULE GeoFrame ------------------------------
(* C04: coordinate indexing .cx on a geometry array / GeoSeries / GeoDataFrame, with and without a
   spatial index.  State machine over one object:
       rows   the element sequence of the object (indices into the catalogue Elems of kind Kind)
       src    for every row, its position in the ORIGINAL object (what labels / other columns follow)
       sidx   NONE, or the index state [ps, perm]: page size and the key order the build chose
              (an arbitrary permutation of the rows with defined bounds - independence of p)
   Actions:  Build(ps, perm)  build_sindex (no effect when an index exists);
             Slice(a, b) / Copy  derive a new object - the new array has NO index (base.py: a fresh
             GeometryArray is constructed, _sindex = None), which is the "built on the parent then
             sliced" situation of the property;
             Cx(key)  evaluates the query both ways: `want` by the P-level meaning, `got` by the
             mechanism (index path: covered rows + exact test on overlapping rows, np.sort; mask path).
   Invariant CxExact: got = want whenever the property speaks (no "U" row). *)
EXTENDS GeoFrameOps

CONSTANTS Kind, Elems, MaxOps
VARIABLES rows0, rows, src, sidx, hist, out

ElemsOf(rs) == [i \in 1..Len(rs) |-> Elems[rs[i]]]

(* ---- the state machine ---- *)
vars == <<rows0, rows, src, sidx, hist, out>>
Perms(s) == {p \in [1..Len(s) -> SeqSet(s)] : \A i, j \in 1..Len(s) : i # j => p[i] # p[j]}
Build(ps, perm) ==
    /\ sidx = NONE
    /\ sidx' = [ps |-> ps, perm |-> perm]
    /\ hist' = Append(hist, [op |-> "build", a |-> ps, b |-> 0, key |-> <<>>])
    /\ UNCHANGED <<rows0, rows, src, out>>
Slice(a, b) ==                    \* rows[a:b], 0-based half-open as in Python
    /\ rows' = SubSeq(rows, a + 1, b)
    /\ src' = SubSeq(src, a + 1, b)
    /\ sidx' = NONE
    /\ hist' = Append(hist, [op |-> "slice", a |-> a, b |-> b, key |-> <<>>])
    /\ UNCHANGED <<rows0, out>>
Stepped(step) ==                  \* rows[::step], step in {-1, 2, -2}: goes through take(), a new array without index
    /\ Len(rows) >= 1
    /\ LET pos == IF step > 0 THEN [j \in 1..((Len(rows) + step - 1) \div step) |-> (j - 1) * step + 1]
                  ELSE [j \in 1..((Len(rows) - step - 1) \div (-step)) |-> Len(rows) - (j - 1) * (-step)]
       IN /\ rows' = [j \in 1..Len(pos) |-> rows[pos[j]]]
          /\ src' = [j \in 1..Len(pos) |-> src[pos[j]]]
    /\ sidx' = NONE
    /\ hist' = Append(hist, [op |-> "step", a |-> step, b |-> 0, key |-> <<>>])
    /\ UNCHANGED <<rows0, out>>
Copy ==
    /\ sidx' = NONE
    /\ hist' = Append(hist, [op |-> "copy", a |-> 0, b |-> 0, key |-> <<>>])
    /\ UNCHANGED <<rows0, rows, src, out>>
Cx(key) ==
    /\ out' = [done |-> TRUE, unspec |-> Unspecified(Kind, ElemsOf(rows), key),
               want |-> PCx(Kind, ElemsOf(rows), key), got |-> DCx(Kind, ElemsOf(rows), sidx, key)]
    /\ hist' = Append(hist, [op |-> "cx", a |-> 0, b |-> 0, key |-> key])
    /\ UNCHANGED <<rows0, rows, src, sidx>>

CxExact == out.done /\ ~out.unspec => out.got = out.want
=============================================================================
