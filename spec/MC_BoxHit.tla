------------------------------ MODULE MC_BoxHit ------------------------------
(* C01, spec -> code and design check: every element of the small-scope families below, against
   every box of the doubled grid.  One initial state per element; `expect` is the answer vector of
   the P-level oracle SPGeom!BoxHit over BoxSeq, `DesignAgrees` compares it with the D-level
   transcription of the kernels (SPGeomImpl).  The state dump is replayed on the real code.

   Scope constants:  G      grid points per axis (vertices at even coordinates 0, 2, .., 2(G-1);
                            box corners at every integer -1 .. 2G-1, so that box edges pass through
                            vertices, between vertices and outside everything)
                     Fam    which family of elements this run enumerates
                     Shard / NShards   this process handles the elements with index = Shard mod NShards *)
EXTENDS GeomFamilies, SPGeomImpl, TLC

CONSTANTS Shard, NShards
VARIABLES kind, elem, expect

ProperBoxes == {B \in BC \X BC \X BC \X BC : B[1] < B[3] /\ B[2] < B[4]}
AllBoxes    == {B \in BC \X BC \X BC \X BC : B[1] <= B[3] /\ B[2] <= B[4]}
BoxSeq == IF Fam \in {"point", "multipoint"} THEN SetToSeq(AllBoxes) ELSE SetToSeq(ProperBoxes)


Code(v) == IF v = "T" THEN 1 ELSE IF v = "F" THEN 0 ELSE 2

ASSUME PrintT(<<"BOXSEQ", BoxSeq>>)
ASSUME PrintT(<<"NELEMS", Len(ElemSeq)>>)

Init == \E i \in 1..Len(ElemSeq) :
          /\ i % NShards = Shard
          /\ kind = ElemSeq[i][1]
          /\ elem = ElemSeq[i][2]
          /\ expect = [b \in 1..Len(BoxSeq) |-> Code(BoxHit(ElemSeq[i][1], ElemSeq[i][2], BoxSeq[b]))]
Next == UNCHANGED <<kind, elem, expect>>

(* D = P: the transcription of the kernels gives the oracle's answer wherever the property speaks *)
DesignAgrees == \A b \in 1..Len(BoxSeq) :
                   expect[b] = 2 \/ expect[b] = Code(ImplBoxHit(kind, elem, BoxSeq[b]))
=============================================================================
