------------------------------ MODULE MC_BoxHit ------------------------------
(* C01, spec -> code and design check: every element of the small-scope families below, against
   every box of the doubled grid.  One initial state per element; `expect` is the answer vector of
   the P-level oracle SPGeom!BoxHit over BoxSeq, `DesignAgrees` compares it with the D-level
   transcription of the kernels (SPGeomImpl).  The state dump is replayed on the real code.

   Scope constants:  G      grid points per axis (vertices at even coordinates 0, 2, .., 2(G-1);
                            box corners at every integer -1 .. 2G-1, so that box edges pass through
                            vertices, between vertices and outside everything)
                     Fam    which family of elements this run enumerates
                     Shard / NShards   this process handles the elements with index = Shard mod NShards *)
EXTENDS SPGeom, SPGeomImpl, SequencesExt, TLC

CONSTANTS G, Fam, Shard, NShards
VARIABLES kind, elem, expect

Grid  == {2 * i : i \in 0..(G - 1)}
Verts == Grid \X Grid
BC    == (-1)..(2 * G - 1)
ProperBoxes == {B \in BC \X BC \X BC \X BC : B[1] < B[3] /\ B[2] < B[4]}
AllBoxes    == {B \in BC \X BC \X BC \X BC : B[1] <= B[3] /\ B[2] <= B[4]}
BoxSeq == IF Fam \in {"point", "multipoint"} THEN SetToSeq(AllBoxes) ELSE SetToSeq(ProperBoxes)

VSeqs(n) == UNION {[1..k -> Verts] : k \in 0..n}
Canonical(ring) == \A i \in 2..(Len(ring) - 1) : ring[1][1] * 100 + ring[1][2] < ring[i][1] * 100 + ring[i][2]
CloseRing(vs) == Append(vs, vs[1])
SimpleRings(k) == {r \in {CloseRing(vs) : vs \in [1..k -> Verts]} : Canonical(r) /\ SimpleRing(r)}

(* holed polygons: shell = the full square or the lower-left triangle of the G-grid, hole = a triangle or
   axis-parallel square on the inner grid, wound opposite to the shell; needs G >= 5 *)
M == 2 * (G - 1)
Shells == { << <<0, 0>>, <<M, 0>>, <<M, M>>, <<0, M>>, <<0, 0>> >>,
            << <<0, 0>>, <<0, M>>, <<M, M>>, <<M, 0>>, <<0, 0>> >>,
            << <<0, 0>>, <<M, 0>>, <<0, M>>, <<0, 0>> >>,
            << <<0, 0>>, <<0, M>>, <<M, 0>>, <<0, 0>> >> }
Inner == {2 * i : i \in 1..(G - 2)}
InnerRings == {r \in {CloseRing(vs) : vs \in [1..3 -> Inner \X Inner]} : SimpleRing(r)}
InnerSquares == UNION { { << <<a, b>>, <<a + s, b>>, <<a + s, b + s>>, <<a, b + s>>, <<a, b>> >>,
                          << <<a, b>>, <<a, b + s>>, <<a + s, b + s>>, <<a + s, b>>, <<a, b>> >> }
                        : <<a, b, s>> \in {t \in Inner \X Inner \X {2, 4} : t[1] + t[3] < M /\ t[2] + t[3] < M} }
Holed1 == {p \in {<<s, h>> : s \in Shells, h \in (InnerRings \cup InnerSquares)} : ValidPolygon(p)}
Holed2 == {p \in {<<s, h1, h2>> : s \in Shells, h1 \in InnerSquares, h2 \in InnerSquares} : ValidPolygon(p)}

(* two-part shapes: small triangles / squares placed far apart, touching at a vertex, sharing an edge,
   and a part inside the other's hole *)
SmallPolys == {<<r>> : r \in SimpleRings(3)}
PolyPairs == {<<a, b>> : a \in {p \in SmallPolys : p[1][1] = <<0, 0>>}, b \in SmallPolys}

Elements ==
    CASE Fam = "point"      -> {<<"point", El(<< << <<v>> >> >>)>> : v \in Verts \cup {<<NaN, NaN>>}} \cup {<<"point", NULL>>}
      [] Fam = "multipoint" -> {<<"multipoint", El(<< <<vs>> >>)>> : vs \in VSeqs(2)} \cup {<<"multipoint", NULL>>}
      [] Fam = "line"       -> {<<"line", El(<< <<vs>> >>)>> : vs \in VSeqs(3)} \cup {<<"line", NULL>>}
      [] Fam = "line4"      -> {<<"line", El(<< <<vs>> >>)>> : vs \in [1..4 -> Verts]}
      [] Fam = "multiline"  -> {<<"multiline", El(<< <<a, b>> >>)>> : a \in [1..2 -> Verts], b \in VSeqs(2)}
                               \cup {<<"multiline", El(<< <<>> >>)>>, <<"multiline", NULL>>}
      [] Fam = "polygon"    -> {<<"polygon", El(<< <<r>> >>)>> : r \in SimpleRings(3) \cup SimpleRings(4)}
                               \cup {<<"polygon", El(<< <<>> >>)>>, <<"polygon", NULL>>}
      [] Fam = "holed"      -> {<<"polygon", El(<<p>>)>> : p \in Holed1 \cup Holed2}
      [] Fam = "multipolygon" -> {<<"multipolygon", El(pp)>> : pp \in PolyPairs}
                               \cup {<<"multipolygon", El(<<>>)>>, <<"multipolygon", NULL>>}
      [] Fam = "holedmulti" -> {<<"multipolygon", El(<<p, <<h>>>>)>> : p \in Holed1, h \in InnerSquares}

ElemSeq == SetToSeq(Elements)
Code(v) == IF v = "T" THEN 1 ELSE IF v = "F" THEN 0 ELSE 2

ASSUME PrintT(<<"BOXSEQ", BoxSeq>>)
ASSUME PrintT(<<"NELEMS", Len(ElemSeq)>>)

Init == \E i \in 1..Len(ElemSeq) :
          /\ i % NShards = Shard
          /\ kind = ElemSeq[i][1]
          /\ elem = ElemSeq[i][2]
          /\ expect = [b \in 1..Len(BoxSeq) |-> Code(BoxHit(ElemSeq[i][1], ElemSeq[i][2], BoxSeq[b]))]
Next == UNCHANGED <<kind, elem, expect>>

(* D = P: the transcription of the kernels gives the oracle's answer wherever the property speaks *)
DesignAgrees == \A b \in 1..Len(BoxSeq) :
                   expect[b] = 2 \/ expect[b] = Code(ImplBoxHit(kind, elem, BoxSeq[b]))
=============================================================================
