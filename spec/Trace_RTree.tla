---------------------------- MODULE Trace_RTree ----------------------------
(* C03, code -> spec.  One record per query on a real HilbertRtree, with the private state the code
   built (keys, node boxes) and the three results exactly as returned:
     {bs: [[..]], ps, keys: [..], tree: [[..]], q: [..], intersects: [..], covers: [..], overlaps: [..], total: [..]}
   (integers; NaN = SPNum!NaN).  The verdict is
     "mismatch"  the results are not the brute-force answer (each row exactly once)      -> property violated
     "departs"   the answer is right but keys / tree / result order are not what the modelled design
                 (RTree!Query under the code's own key order) produces               -> model out of date
     "ok"        both agree *)
EXTENDS RTree, Json, IOUtils, TLC

TraceLog == ndJsonDeserialize(IOEnv.TRACE_FILE)
VARIABLES l, verdict

IsPerm(keys, rows) == Len(keys) = Len(rows) /\ SeqSet(keys) = SeqSet(rows) /\ NoDup(keys)
PropertyOK(r) ==
    /\ NoDup(r.intersects) /\ SeqSet(r.intersects) = BruteIntersects(r.bs, r.q)
    /\ NoDup(r.covers \o r.overlaps)
    /\ SeqSet(r.covers) = BruteCovers(r.bs, r.q)
    /\ SeqSet(r.overlaps) = BruteOverlapsOnly(r.bs, r.q)
    /\ r.total = BruteTotal(r.bs, Dim(r.q))
DesignOK(r) ==
    /\ IsPerm(r.keys, SelectRows(r.bs, 0, TRUE))
    /\ LET d == Query(r.bs, r.keys, r.ps, r.q, TRUE)
           sorted == [k \in 1..Len(r.keys) |-> r.bs[r.keys[k] + 1]]
       IN /\ d.intersects = r.intersects /\ d.covers = r.covers /\ d.overlaps = r.overlaps
          /\ (Len(r.keys) > 0 => r.tree = BuildTree(sorted, r.ps, Dim(r.q)))
Judge(r) == IF ~PropertyOK(r) THEN "mismatch" ELSE IF ~DesignOK(r) THEN "departs" ELSE "ok"

Init == \E i \in 1..Len(TraceLog) : l = i /\ verdict = Judge(TraceLog[i])
Next == UNCHANGED <<l, verdict>>
RecordOK == verdict # "mismatch"
=============================================================================
