------------------------------ MODULE MC_RTree ------------------------------
(* C03 (and the index half of C04 / C05 / C17): exhaustive small-scope check of the R-tree design
   against brute force, and generation of cases for replay on HilbertRtree.

   Constants:  D  dimensions; C  coordinates 0 .. C-1 per axis (plus the undefined box);
               N  at most N rows; MaxPS  page sizes 1 .. MaxPS; Filter = RTree!FilterNaN;
               Mode "design": one state per (rows, page size, key permutation), invariant DesignExact
                    over every query;  Mode "gen": one state per row sequence with the brute-force
                    answers for every query of QSeq (replayed on the code). *)
EXTENDS RTree, SequencesExt, FiniteSetsExt, TLC

CONSTANTS D, C, N, MaxPS, Filter, Mode, QLoM, QHi, Shard, NShards
VARIABLES bs, ps, perm, expect

Intervals(lo, hi) == {<<a, b>> \in (lo..hi) \X (lo..hi) : a <= b}
(* boxes as <<min_1..min_D, max_1..max_D>> built from one interval per axis *)
MkBox(ivs) == [k \in 1..(2 * D) |-> IF k <= D THEN ivs[k][1] ELSE ivs[k - D][2]]
DataBoxes  == {MkBox(ivs) : ivs \in [1..D -> Intervals(0, C - 1)]} \cup {NaNBox(D)}
QueryBoxes == {MkBox(ivs) : ivs \in [1..D -> Intervals(-QLoM, QHi)]}
QSeq == SetToSeq(QueryBoxes)

RowSeqs == UNION {[1..k -> DataBoxes] : k \in 0..N}
Hash(s) == LET RECURSIVE H(_)
               H(i) == IF i > Len(s) THEN 0 ELSE (i * ((s[i][1] % 97) + 3 * (s[i][Len(s[i])] % 89)) + 7 * H(i + 1)) % 100003
           IN H(1)
Perms(rows) == {p \in [1..Len(rows) -> SeqSet(rows)] : \A i, j \in 1..Len(rows) : i # j => p[i] # p[j]}

ASSUME PrintT(<<"QSEQ", QSeq>>)

Init ==
    /\ bs \in RowSeqs
    /\ Hash(bs) % NShards = Shard
    /\ IF Mode = "design"
       THEN /\ ps \in 1..MaxPS
            /\ perm \in Perms(SelectRows(bs, 0, Filter))
            /\ expect = <<>>
       ELSE /\ ps = 1
            /\ perm = SelectRows(bs, 0, Filter)
            /\ expect = [ans |-> [k \in 1..Len(QSeq) |-> <<BruteIntersects(bs, QSeq[k]), BruteCovers(bs, QSeq[k])>>],
                         total |-> BruteTotal(bs, D)]
Next == UNCHANGED <<bs, ps, perm, expect>>

DesignExact == \A k \in 1..Len(QSeq) : QueryExact(bs, perm, ps, QSeq[k], Filter)
=============================================================================
