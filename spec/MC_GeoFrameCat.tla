--------------------------- MODULE MC_GeoFrameCat ---------------------------
(* prints the catalogues so that the harness builds the same elements the models talk about *)
EXTENDS GeoCatalogue, TLC
VARIABLE x
ASSUME PrintT(<<"CAT", "CatPoint", CatPoint>>)
ASSUME PrintT(<<"CAT", "CatMultiPoint", CatMultiPoint>>)
ASSUME PrintT(<<"CAT", "CatLine", CatLine>>)
ASSUME PrintT(<<"CAT", "CatRing", CatRing>>)
ASSUME PrintT(<<"CAT", "CatMultiLine", CatMultiLine>>)
ASSUME PrintT(<<"CAT", "CatPolygon", CatPolygon>>)
ASSUME PrintT(<<"CAT", "CatMultiPolygon", CatMultiPolygon>>)
Init == x = 0
Next == UNCHANGED x
=============================================================================
