----------------------------- MODULE SPGeomImpl -----------------------------
(* D level: transcription of the intersection kernels of
   spatialpandas/geometry/_algorithms/intersection.py and of the per-kind wrappers, on the data
   layout the code uses (one flat array of interleaved coordinates plus offset arrays; arrays are
   0-based as in the code: A(arr, k) is arr[k]).  Nothing here is "what should hold" - it is what
   the code does, step for step, so that TLC can confront the mechanism with SPGeom (P). *)
EXTENDS SPGeom, SequencesExt

A(arr, k) == arr[k + 1]

(* ---- layout of one element (after JunkLen junk scalars, so that no offset is zero) ---- *)
Junk == <<40, 40, 41, 41>>
XYFlat(vs) == [i \in 1..(2 * Len(vs)) |-> IF i % 2 = 1 THEN vs[(i + 1) \div 2][1] ELSE vs[i \div 2][2]]
RingsOf(g) == FlattenSeq(g)                                   \* all rings of all parts, in order
ValuesOf(g) == Junk \o FlattenSeq([r \in 1..Len(RingsOf(g)) |-> XYFlat(RingsOf(g)[r])])
RECURSIVE Prefix(_, _)
Prefix(lens, base) == IF lens = <<>> THEN <<base>> ELSE <<base>> \o Prefix(Tail(lens), base + Head(lens))
RingOffsets(g) == Prefix([r \in 1..Len(RingsOf(g)) |-> 2 * Len(RingsOf(g)[r])], Len(Junk))   \* into values
PartOffsets(g) == Prefix([p \in 1..Len(g) |-> Len(g[p])], 0)                                \* into ring offsets

(* ---- total_bounds_interleaved(values[start:stop]) ---- *)
BoundsOf(values, start, stop) ==
    LET xs == {A(values, k) : k \in {j \in start..(stop - 1) : (j - start) % 2 = 0}}
        ys == {A(values, k) : k \in {j \in start..(stop - 1) : (j - start) % 2 = 1}}
    IN << FinMin(xs), FinMin(ys), FinMax(xs), FinMax(ys) >>

(* ---- segments_intersect_1d / triangle_orientation / segments_intersect ---- *)
ImplSeg1d(ax0, ax1, bx0, bx1) ==
    LET a0 == IF ax1 < ax0 THEN ax1 ELSE ax0
        a1 == IF ax1 < ax0 THEN ax0 ELSE ax1
        b0 == IF bx1 < bx0 THEN bx1 ELSE bx0
        b1 == IF bx1 < bx0 THEN bx0 ELSE bx1
    IN Max2(a0, b0) <= Min2(a1, b1)
ImplTriOrient(ax, ay, bx, by, cx, cy) == Sign((bx - ax) * (cy - ay) - (by - ay) * (cx - ax))
ImplSegSeg(ax0, ay0, ax1, ay1, bx0, by0, bx1, by1) ==
    IF ~ImplSeg1d(ax0, ax1, bx0, bx1) THEN FALSE
    ELSE IF ~ImplSeg1d(ay0, ay1, by0, by1) THEN FALSE
    ELSE
      LET azero == ax0 = ax1 /\ ay0 = ay1
          bzero == bx0 = bx1 /\ by0 = by1
      IN
      IF azero /\ ~bzero /\ ((ax0 = bx0 /\ ay0 = by0) \/ (ax0 = bx1 /\ ay0 = by1)) THEN TRUE
      ELSE IF bzero /\ ~azero /\ ((bx0 = ax0 /\ by0 = ay0) \/ (bx0 = ax1 /\ by0 = ay1)) THEN TRUE
      ELSE IF azero \/ bzero THEN FALSE
      ELSE
        LET b0o == ImplTriOrient(ax0, ay0, ax1, ay1, bx0, by0)
            b1o == ImplTriOrient(ax0, ay0, ax1, ay1, bx1, by1)
        IN
        IF b0o = 0 /\ b1o = 0 THEN TRUE
        ELSE IF b0o = b1o THEN FALSE
        ELSE
          LET a0o == ImplTriOrient(bx0, by0, bx1, by1, ax0, ay0)
              a1o == ImplTriOrient(bx0, by0, bx1, by1, ax1, ay1)
          IN
          IF a0o = 0 /\ a1o = 0 THEN TRUE
          ELSE IF a0o = a1o THEN FALSE
          ELSE TRUE

(* ---- the bbox reject / projection shortcut / vertex test shared by lines and polygons ---- *)
(* returns "F", "T" or "GO" (continue with the segment loop) for values[start:stop] *)
ImplPreTest(values, start, stop, x0, y0, x1, y1) ==
    LET b == BoundsOf(values, start, stop) IN
    IF Gt(b[1], x1) \/ Gt(b[2], y1) \/ Lt(b[3], x0) \/ Lt(b[4], y0) THEN "F"
    ELSE IF (Ge(b[1], x0) /\ Le(b[3], x1)) \/ (Ge(b[2], y0) /\ Le(b[4], y1)) THEN "T"
    ELSE IF \E k \in {j \in start..(stop - 1) : (j - start) % 2 = 0} :
               /\ Le(x0, A(values, k)) /\ Le(A(values, k), x1)
               /\ Le(y0, A(values, k + 1)) /\ Le(A(values, k + 1), y1)
         THEN "T"
    ELSE "GO"
(* for j in range(start, stop - 2, 2): segment against top, bottom, left, right edge *)
ImplSegLoop(values, start, stop, x0, y0, x1, y1) ==
    \E j \in {k \in start..(stop - 3) : (k - start) % 2 = 0} :
       LET ex0 == A(values, j)
           ey0 == A(values, j + 1)
           ex1 == A(values, j + 2)
           ey1 == A(values, j + 3)
       IN
       \/ ImplSegSeg(ex0, ey0, ex1, ey1, x0, y1, x1, y1)
       \/ ImplSegSeg(ex0, ey0, ex1, ey1, x0, y0, x1, y0)
       \/ ImplSegSeg(ex0, ey0, ex1, ey1, x0, y0, x0, y1)
       \/ ImplSegSeg(ex0, ey0, ex1, ey1, x1, y0, x1, y1)

(* _perform_line_intersect_bounds for the line values[start:stop] *)
ImplLineBounds(values, start, stop, x0, y0, x1, y1) ==
    LET pre == ImplPreTest(values, start, stop, x0, y0, x1, y1) IN
    IF pre = "F" THEN FALSE
    ELSE IF pre = "T" THEN TRUE
    ELSE ImplSegLoop(values, start, stop, x0, y0, x1, y1)

(* ---- point_intersects_polygon(x, y, values, value_offsets): winding number ---- *)
ImplEdgeWinding(x, y, px0, py0, px1, py1) ==
    IF py1 = py0 THEN 0
    ELSE
      LET asc == IF py1 < py0 THEN -1 ELSE 1
          lx  == IF py1 < py0 THEN px1 ELSE px0
          ly  == IF py1 < py0 THEN py1 ELSE py0
          ux  == IF py1 < py0 THEN px0 ELSE px1
          uy  == IF py1 < py0 THEN py0 ELSE py1
      IN
      IF ly >= y \/ uy < y \/ (lx < x /\ ux < x) THEN 0
      ELSE IF lx >= x /\ ux >= x THEN asc
      ELSE
        LET axb == (lx - x) * (uy - y) - (ly - y) * (ux - x) IN
        IF axb > 0 \/ axb = 0 THEN asc ELSE 0          \* "axb == 0 and ascending": ascending is +-1, always truthy
RECURSIVE ImplRingWinding(_, _, _, _, _)
ImplRingWinding(x, y, values, k, stop) ==            \* for k in range(start, stop - 2, 2)
    IF k >= stop - 2 THEN 0
    ELSE ImplEdgeWinding(x, y, A(values, k), A(values, k + 1), A(values, k + 2), A(values, k + 3))
         + ImplRingWinding(x, y, values, k + 2, stop)
RECURSIVE ImplWinding(_, _, _, _, _)
ImplWinding(x, y, values, offsets, i) ==             \* for i in range(len(offsets) - 1)
    IF i >= Len(offsets) - 1 THEN 0
    ELSE ImplRingWinding(x, y, values, A(offsets, i), A(offsets, i + 1)) + ImplWinding(x, y, values, offsets, i + 1)
ImplPointInPolygon(x, y, values, offsets) == ImplWinding(x, y, values, offsets, 0) # 0

(* ---- _perform_polygon_intersect_bounds for rings start0 .. stop0-1 of offsets1 ---- *)
ImplPolygonBounds(values, offsets1, start0, stop0, x0, y0, x1, y1) ==
    LET start1 == A(offsets1, start0)
        stop1  == A(offsets1, stop0)
        pre    == ImplPreTest(values, start1, stop1, x0, y0, x1, y1)
        poffs  == SubSeq(offsets1, start0 + 1, stop0 + 1)          \* offsets1[start0:stop0 + 1]
    IN
    IF pre = "F" THEN FALSE
    ELSE IF pre = "T" THEN TRUE
    ELSE IF \E j \in start0..(stop0 - 1) :
               ImplSegLoop(values, A(offsets1, j), A(offsets1, j + 1), x0, y0, x1, y1)
         THEN TRUE
    ELSE \/ ImplPointInPolygon(x0, y0, values, poffs)
         \/ ImplPointInPolygon(x1, y0, values, poffs)
         \/ ImplPointInPolygon(x1, y1, values, poffs)
         \/ ImplPointInPolygon(x0, y1, values, poffs)

(* ---- per-kind wrappers: box re-orientation, degenerate-box early return, offset slicing ---- *)
ImplBoxHitBool(kind, g, B0) ==
    LET x0 == Min2(B0[1], B0[3])
        x1 == Max2(B0[1], B0[3])
        y0 == Min2(B0[2], B0[4])
        y1 == Max2(B0[2], B0[4])
        values == ValuesOf(g)
        roffs  == RingOffsets(g)
        poffs  == PartOffsets(g)
        nr     == Len(roffs) - 1
    IN
    CASE kind = "point" ->
           (* PointArray.intersects_bounds: ~(isnan(x) | x < x0 | x > x1 | y < y0 | y > y1) *)
           LET x == A(values, Len(Junk))
               y == A(values, Len(Junk) + 1)
           IN ~(IsNaN(x) \/ Lt(x, x0) \/ Gt(x, x1) \/ Lt(y, y0) \/ Gt(y, y1))
      [] kind = "multipoint" ->
           \E k \in {j \in A(roffs, 0)..(A(roffs, nr) - 1) : (j - A(roffs, 0)) % 2 = 0} :
               /\ Le(x0, A(values, k)) /\ Le(A(values, k), x1)
               /\ Le(y0, A(values, k + 1)) /\ Le(A(values, k + 1), y1)
      [] kind \in {"line", "ring"} ->
           IF x0 = x1 \/ y0 = y1 THEN FALSE
           ELSE ImplLineBounds(values, A(roffs, 0), A(roffs, nr), x0, y0, x1, y1)
      [] kind = "multiline" ->
           IF x0 = x1 \/ y0 = y1 THEN FALSE
           ELSE \E j \in 0..(nr - 1) : ImplLineBounds(values, A(roffs, j), A(roffs, j + 1), x0, y0, x1, y1)
      [] kind = "polygon" ->
           ImplPolygonBounds(values, roffs, 0, nr, x0, y0, x1, y1)
      [] kind = "multipolygon" ->
           \E p \in 0..(Len(poffs) - 2) :
               ImplPolygonBounds(values, roffs, A(poffs, p), A(poffs, p + 1), x0, y0, x1, y1)
ImplBoxHit(kind, e, B) == IF e.null THEN "F" ELSE IF ImplBoxHitBool(kind, e.g, B) THEN "T" ELSE "F"

(* ---- segment_intersects_point and the point-versus-shape kernels of point.py ---- *)
ImplSegPoint(ax0, ay0, ax1, ay1, bx, by) ==
    IF bx < Min2(ax0, ax1) \/ bx > Max2(ax0, ax1) THEN FALSE
    ELSE IF by < Min2(ay0, ay1) \/ by > Max2(ay0, ay1) THEN FALSE
    ELSE (ax1 - ax0) * (by - ay0) - (ay1 - ay0) * (bx - ax0) = 0
ImplPointLine(x, y, values, start, stop) ==          \* one line values[start:stop] of _perform_intersects_line
    LET xs == {A(values, k) : k \in {j \in start..(stop - 1) : (j - start) % 2 = 0}}
        ys == {A(values, k) : k \in {j \in start..(stop - 1) : (j - start) % 2 = 1}}
    IN
    IF start = stop THEN FALSE                       \* (min() of an empty sequence: see DESIGN, never reached for valid data)
    ELSE IF x < NpMin(xs) \/ y < NpMin(ys) \/ x > NpMax(xs) \/ y > NpMax(ys) THEN FALSE
    ELSE \/ \E k \in {j \in start..(stop - 1) : (j - start) % 2 = 0} : A(values, k) = x /\ A(values, k + 1) = y
         \/ \E k \in {j \in start..(stop - 3) : (j - start) % 2 = 0} :
               ImplSegPoint(A(values, k), A(values, k + 1), A(values, k + 2), A(values, k + 3), x, y)
ImplPointHitBool(pt, kind, g) ==
    LET values == ValuesOf(g)
        roffs  == RingOffsets(g)
        nr     == Len(roffs) - 1
    IN
    CASE kind \in {"point", "multipoint"} ->
           \E k \in {j \in A(roffs, 0)..(A(roffs, nr) - 1) : (j - A(roffs, 0)) % 2 = 0} :
               A(values, k) = pt[1] /\ A(values, k + 1) = pt[2]
      [] kind \in {"line", "ring", "multiline"} ->
           \E j \in 0..(nr - 1) : ImplPointLine(pt[1], pt[2], values, A(roffs, j), A(roffs, j + 1))
      [] kind \in {"polygon", "multipolygon"} ->
           ImplPointInPolygon(pt[1], pt[2], values, roffs)   \* buffer_inner_offsets: all rings of all parts
ImplPointHit(pt, kind, e) == IF e.null THEN "F" ELSE IF ImplPointHitBool(pt, kind, e.g) THEN "T" ELSE "F"
=============================================================================
