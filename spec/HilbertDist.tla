----------------------------- MODULE HilbertDist -----------------------------
(* C08: the Hilbert distance of an element = curve position (Hilbert!Encode) of the grid cell containing
   the centre of its bounding box, in the 2^p x 2^p grid spanning total_bounds.

   Exact integer formulation.  For one axis let lo, hi be the extent (hi widened by 1 when hi = lo),
   W = hi - lo, and c2 = b_lo + b_hi twice the centre.  The code computes
        trunc((c2 / 2 - lo) * (2^p / W))   clipped to [0, 2^p - 1].
   Cell(...) is that number for small p.  CellBits(...) gives the same cell as a bit sequence for any p
   (no number beyond the coordinates themselves is formed) when W = 2^k - the domain on which the code's
   floating-point scaling is exact and on which C08 demands equality. *)
EXTENDS Hilbert, SPMeasure

Widen(lo, hi) == IF hi = lo THEN hi + 1 ELSE hi
IsPow2(n) == n >= 1 /\ \E k \in 0..30 : P2(k) = n
Log2(n) == CHOOSE k \in 0..30 : P2(k) = n

Cell(c2, lo, hi0, p) ==
    LET hi  == Widen(lo, hi0)
        W   == hi - lo
        N   == P2(p)
        num == (c2 - 2 * lo) * N
        c   == IF num < 0 THEN 0 ELSE num \div (2 * W)
    IN IF c > N - 1 THEN N - 1 ELSE c

Zeros(n) == [i \in 1..n |-> 0]
Ones(n)  == [i \in 1..n |-> 1]
(* first p bits of the binary expansion of r / 2^(k+1), r = c2 - 2 lo, W = 2^k *)
CellBits(c2, lo, hi0, p) ==
    LET hi == Widen(lo, hi0)
        k  == Log2(hi - lo)
        r  == c2 - 2 * lo
    IN IF r < 0 THEN Zeros(p)
       ELSE IF r >= P2(k + 1) THEN Ones(p)
       ELSE SubSeq(BitsOf(r, k + 1) \o Zeros(p), 1, p)

Defined(b) == \A i \in 1..4 : IsFinite(b[i])
ExactDomain(b, tb) == /\ Defined(b) /\ Defined(tb)
                      /\ IsPow2(Widen(tb[1], tb[3]) - tb[1]) /\ IsPow2(Widen(tb[2], tb[4]) - tb[2])
(* base-4 digits of the distance of an element with bounds row b *)
DistanceDigits(b, tb, p) == Encode(Start, CellBits(b[1] + b[3], tb[1], tb[3], p), CellBits(b[2] + b[4], tb[2], tb[4], p))
=============================================================================
