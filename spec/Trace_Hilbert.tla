---------------------------- MODULE Trace_Hilbert ----------------------------
(* C07, code -> spec.  Numbers never enter TLC as integers beyond 32 bits: coordinates are logged as bit
   sequences and distances as digit sequences in base 2^n, most significant first.  Records:
     {op: "cell",   p, xb, yb, dg}        distances_from_coordinates / distance_from_coordinate, n = 2:
                                           dg must be what the classical curve (Hilbert!Encode) gives
     {op: "decode", p, dg, xb, yb}        coordinates_from_distances / coordinate_from_distance, n = 2
     {op: "table",  n, p, cells, parent}  the whole order-p table in n dimensions (cells[d + 1] = cell of d) and
                                           the order-(p-1) table (<<>> for p = 1): bijection onto the grid, unit
                                           steps, refinement - the property itself is the specification (n = 1, 3)
     {op: "refine", n, p, dg, dgp}        digits of a cell at order p and of its parent cell at order p-1     *)
EXTENDS Hilbert, Json, IOUtils, TLC

TraceLog == ndJsonDeserialize(IOEnv.TRACE_FILE)
VARIABLES l, verdict

TableOK(r) ==
    LET N == Len(r.cells)
        side == P2(r.p)
    IN
    /\ N = P2(r.n * r.p)
    /\ \A i \in 1..N : \A a \in 1..r.n : r.cells[i][a] >= 0 /\ r.cells[i][a] < side
    /\ Cardinality({r.cells[i] : i \in 1..N}) = N
    /\ \A i \in 1..(N - 1) : \E a \in 1..r.n :
          /\ (r.cells[i][a] - r.cells[i + 1][a] = 1 \/ r.cells[i + 1][a] - r.cells[i][a] = 1)
          /\ \A b \in 1..r.n : b # a => r.cells[i][b] = r.cells[i + 1][b]
    /\ r.p > 1 => \A i \in 1..N : r.parent[((i - 1) \div P2(r.n)) + 1] = [a \in 1..r.n |-> r.cells[i][a] \div 2]
Judge(r) ==
    CASE r.op = "cell"   -> IF Encode(Start, r.xb, r.yb) = r.dg THEN "ok" ELSE "mismatch"
      [] r.op = "decode" -> IF Decode(Start, r.dg) = <<r.xb, r.yb>> THEN "ok" ELSE "mismatch"
      [] r.op = "table"  -> IF TableOK(r) THEN "ok" ELSE "mismatch"
      [] r.op = "refine" -> IF SubSeq(r.dg, 1, r.p - 1) = r.dgp THEN "ok" ELSE "mismatch"

Init == \E i \in 1..Len(TraceLog) : l = i /\ verdict = Judge(TraceLog[i])
Next == UNCHANGED <<l, verdict>>
RecordOK == verdict # "mismatch"
=============================================================================
