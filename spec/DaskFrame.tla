------------------------------ MODULE DaskFrame ------------------------------
(* C06: a Dask geo frame answers exactly like the pandas frame it represents.
   State:  parts   the partitions, each a sequence of catalogue rows (indices into Elems, kind Kind)
           ids     parallel to parts: the identity of every row (position in the original pandas frame)
           bcache  NONE, or the per-partition bounds the frame has cached (_partition_bounds / _partition_sindex)
   P level: every operation is the pandas operation on Concat(parts).
   D level (dask.py, tools/sjoin.py):
     partition bounds = total_bounds of each partition (NaN row for an empty or all-inert partition), cached on first
       use, propagated by column selection / persist, NOT by row filtering (a new frame starts without caches);
     total_bounds = nanmin / nanmax over the partition bounds;
     cx: default slice ends from the partition-level R-tree's root box; partitions = covered + overlapping ones of that
       tree; EVERY selected partition is filtered with the pandas cx (commit "fix: Dask cx filters the partitions
       covered by the query box too"); cx_partitions: the selected partitions as they are;
     sjoin: per partition, joined with the right rows whose bounds intersect the partition bounds (right R-tree);
       skipped when there are none and how = "inner". *)
EXTENDS GeoFrameOps, SJoin

CONSTANTS Kind, Elems, RKind, RElems, MaxOps
VARIABLES parts0, parts, ids, bcache, hist, out

NONEB == << <<0>> >>                                  \* "no cache" marker (never a legal bounds table)
ElemsOf(rs) == [i \in 1..Len(rs) |-> Elems[rs[i]]]
Flat(ps) == FlattenSeq(ps)
PartBounds(ps) == [k \in 1..Len(ps) |-> TotalBounds(ElemsOf(ps[k]))]
Col(pb, c) == {pb[k][c] : k \in 1..Len(pb)}
DTotalBounds(pb) == <<NanMin(Col(pb, 1)), NanMin(Col(pb, 2)), NanMax(Col(pb, 3)), NanMax(Col(pb, 4))>>
ExplicitKey(B) == << <<B[1], B[3], 0>>, <<B[2], B[4], 0>> >>

(* partitions selected by the partition-level index (page size 512: a single page; key order irrelevant) *)
SelectedParts(pb, B) ==
    LET r == Query(pb, SelectRows(pb, 0, TRUE), 512, B, TRUE) IN SortNat(r.covers \o r.overlaps)     \* 0-based partition numbers
DCxDask(ps, pb, key) ==                                \* -> the ids-positions (1-based positions in Flat(ps)) selected, in order
    LET B == Resolve(key, BruteTotal(pb, 2)) IN
    IF HasNaN(B) THEN <<>>
    ELSE LET sel == SelectedParts(pb, B)
             offset(k) == SumSeq([j \in 1..k |-> Len(ps[j])])             \* rows before partition k + 1
         IN FlattenSeq([j \in 1..Len(sel) |->
                          LET k == sel[j] + 1
                              inside == DCx(Kind, ElemsOf(ps[k]), NONE, ExplicitKey(B))
                          IN [q \in 1..Len(inside) |-> offset(k - 1) + inside[q]]])
DCxPartitions(ps, pb, key) ==                          \* whole partitions: positions of all their rows
    LET B == Resolve(key, BruteTotal(pb, 2)) IN
    IF HasNaN(B) THEN <<>>
    ELSE LET sel == SelectedParts(pb, B)
             offset(k) == SumSeq([j \in 1..k |-> Len(ps[j])])
         IN FlattenSeq([j \in 1..Len(sel) |-> [q \in 1..Len(ps[sel[j] + 1]) |-> offset(sel[j]) + q]])
(* Dask sjoin: set of (left position in Flat(ps), right position) pairs, 0 = unmatched side *)
DSJoinDask(ps, pb, how) ==
    LET rb == [i \in 1..Len(RElems) |-> Bounds(RElems[i])]
        offset(k) == SumSeq([j \in 1..k |-> Len(ps[j])])
    IN UNION { LET cand == Query(rb, SelectRows(rb, 0, TRUE), 512, pb[k], TRUE).intersects        \* 0-based right rows
                   rsub == [j \in 1..Len(cand) |-> RElems[cand[j] + 1]]
                   lg   == ElemsOf(ps[k])
               IN IF how = "inner" /\ Len(cand) = 0 THEN {}
                  ELSE { << IF p[1] = 0 THEN 0 ELSE offset(k - 1) + p[1], IF p[2] = 0 THEN 0 ELSE cand[p[2]] + 1 >> :
                           p \in PairSet(how, Len(lg), Len(rsub), Hit(lg, RKind, rsub)) }
             : k \in 1..Len(ps) }

(* ---- the state machine ---- *)
Log(op, a, key) == hist' = Append(hist, [op |-> op, a |-> a, key |-> key])
NoOut == [op |-> "", want |-> <<>>, got |-> <<>>, unspec |-> FALSE]
Bounds0(ps) == IF bcache = NONEB THEN PartBounds(ps) ELSE bcache      \* what the frame uses: its cache if it has one
TouchBounds ==                                         \* partition_bounds / partition_sindex accessed: cached from now on
    /\ bcache' = Bounds0(parts) /\ out' = NoOut /\ Log("touch", 0, <<>>) /\ UNCHANGED <<parts0, parts, ids>>
FilterRows(keep) ==                                    \* keep: set of row identities to keep
    /\ parts' = [k \in 1..Len(parts) |-> [j \in 1..Len(SelectSeq(ids[k], LAMBDA x : x \in keep)) |->
                                             parts[k][CHOOSE q \in 1..Len(ids[k]) : ids[k][q] = SelectSeq(ids[k], LAMBDA x : x \in keep)[j]]]]
    /\ ids' = [k \in 1..Len(ids) |-> SelectSeq(ids[k], LAMBDA x : x \in keep)]
    /\ bcache' = NONEB /\ out' = NoOut /\ Log("filter", keep, <<>>) /\ UNCHANGED parts0
ColSelect ==                                           \* ddf[[cols]] / persist: same rows, caches propagated
    /\ out' = NoOut /\ Log("colselect", 0, <<>>) /\ UNCHANGED <<parts0, parts, ids, bcache>>
Cx(key) ==
    /\ out' = [op |-> "cx", unspec |-> Unspecified(Kind, ElemsOf(Flat(parts)), key),
               want |-> PCx(Kind, ElemsOf(Flat(parts)), key), got |-> DCxDask(parts, Bounds0(parts), key)]
    /\ bcache' = Bounds0(parts) /\ Log("cx", 0, key) /\ UNCHANGED <<parts0, parts, ids>>
CxParts(key) ==
    /\ out' = [op |-> "cx_partitions", unspec |-> Unspecified(Kind, ElemsOf(Flat(parts)), key),
               want |-> PCx(Kind, ElemsOf(Flat(parts)), key), got |-> DCxPartitions(parts, Bounds0(parts), key)]
    /\ bcache' = Bounds0(parts) /\ Log("cx_partitions", 0, key) /\ UNCHANGED <<parts0, parts, ids>>
TotalB ==
    /\ out' = [op |-> "total_bounds", unspec |-> FALSE, want |-> TotalBounds(ElemsOf(Flat(parts))), got |-> DTotalBounds(Bounds0(parts))]
    /\ bcache' = Bounds0(parts) /\ Log("total_bounds", 0, <<>>) /\ UNCHANGED <<parts0, parts, ids>>
SJoinOp(how) ==
    /\ Kind = "point"
    /\ out' = [op |-> "sjoin", unspec |-> Undecided(ElemsOf(Flat(parts)), RKind, RElems),
               want |-> PairSet(how, Len(Flat(parts)), Len(RElems), Hit(ElemsOf(Flat(parts)), RKind, RElems)),
               got |-> DSJoinDask(parts, Bounds0(parts), how)]
    /\ Log("sjoin", how, <<>>) /\ UNCHANGED <<parts0, parts, ids, bcache>>

(* D refines P *)
DaskExact == out.op # "" /\ ~out.unspec =>
                IF out.op = "cx_partitions" THEN SeqSet(out.want) \subseteq SeqSet(out.got) ELSE out.got = out.want
CacheFresh == bcache = NONEB \/ bcache = PartBounds(parts)      \* a cache, when present, describes the frame that holds it
=============================================================================
