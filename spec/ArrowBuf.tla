------------------------------- MODULE ArrowBuf -------------------------------
(* D level for C13 / C14 / C16 / C17: the Arrow list-array layout behind GeometryListArray and the buffer
   accessors of baselist.py / base.py, for nesting depth K = 1 (line, multipoint, ring), 2 (multiline, polygon)
   and 3 (multipolygon).

   Abstract array: a sequence of elements [null |-> BOOLEAN, v |-> nested sequences of depth K with numbers
   (interleaved x, y) at the leaves].
   Layout:  [off, len, bitmap, offs, values] - the array's offset and length, the validity bitmap (<<>> when the
   buffer is absent), the K offset buffers (offs[1] indexed by slot number, deeper ones by child position) and
   the flat value buffer.  A slice / take / concat of pyarrow changes (off, len) and rebuilds or shares buffers;
   the layouts modelled are: any number of foreign elements before and after the window (off > 0, buffers longer
   than the window), bitmap present or absent, null slots with an empty range (what pyarrow builds; the recorder
   checks this on the real arrays), child arrays without an offset of their own. *)
EXTENDS SPNum, SequencesExt

NullEl == [null |-> TRUE, v |-> <<>>]
Val(v)  == [null |-> FALSE, v |-> v]

(* ---- the validity bitmap is a BYTE buffer: bit i lives in byte i div 8 at position i mod 8 (least significant first) ---- *)
Bit(bytes, i) == (bytes[(i \div 8) + 1] \div Pow2(i % 8)) % 2                  \* base.py: (bitmap[byte_idx] & (1 << (idx % 8))) != 0
PackBits(bits) == [b \in 1..((Len(bits) + 7) \div 8) |->
                     SumSeq([k \in 1..8 |-> IF (b - 1) * 8 + k <= Len(bits) THEN bits[(b - 1) * 8 + k] * Pow2(k - 1) ELSE 0])]

(* ---- canonical encoding of a full element sequence F at depth K ---- *)
RECURSIVE Prefix0(_, _)
Prefix0(lens, base) == IF lens = <<>> THEN <<base>> ELSE <<base>> \o Prefix0(Tail(lens), base + Head(lens))
Lens(s) == [i \in 1..Len(s) |-> Len(s[i])]
Encode(F, K, withBitmap) ==
    LET top == [i \in 1..Len(F) |-> IF F[i].null THEN <<>> ELSE F[i].v]      \* children lists of each slot
        c1  == FlattenSeq(top)                                              \* depth K-1 values (or numbers if K = 1)
        c2  == IF K >= 2 THEN FlattenSeq(c1) ELSE <<>>
        c3  == IF K >= 3 THEN FlattenSeq(c2) ELSE <<>>
    IN [ bitmap |-> IF withBitmap THEN PackBits([i \in 1..Len(F) |-> IF F[i].null THEN 0 ELSE 1]) ELSE <<>>,
         offs   |-> IF K = 1 THEN << Prefix0(Lens(top), 0) >>
                    ELSE IF K = 2 THEN << Prefix0(Lens(top), 0), Prefix0(Lens(c1), 0) >>
                    ELSE << Prefix0(Lens(top), 0), Prefix0(Lens(c1), 0), Prefix0(Lens(c2), 0) >>,
         values |-> IF K = 1 THEN c1 ELSE IF K = 2 THEN c2 ELSE c3 ]
Layout(pre, A, post, K, withBitmap) ==
    LET F == pre \o A \o post
        e == Encode(F, K, withBitmap \/ \E i \in 1..Len(F) : F[i].null)
    IN [off |-> Len(pre), len |-> Len(A), bitmap |-> e.bitmap, offs |-> e.offs, values |-> e.values]

(* ---- Arrow's own meaning of a layout (decoder) ---- *)
At0(s, k) == s[k + 1]
Sub0(s, a, b) == SubSeq(s, a + 1, b)                   \* s[a:b]
RECURSIVE DecodeChild(_, _, _, _)
DecodeChild(L, level, a, b) ==                         \* children a..b-1 at `level` (1-based index into offs) -> depth K-level+1 values
    IF level > Len(L.offs) THEN Sub0(L.values, a, b)
    ELSE [j \in 1..(b - a) |-> DecodeChild(L, level + 1, At0(L.offs[level], a + j - 1), At0(L.offs[level], a + j))]
Decode(L) == [i \in 1..L.len |->
                IF L.bitmap # <<>> /\ Bit(L.bitmap, L.off + i - 1) = 0 THEN NullEl
                ELSE Val(DecodeChild(L, 2, At0(L.offs[1], L.off + i - 1), At0(L.offs[1], L.off + i)))]

(* ---- the accessors of _ListArrayBufferMixin / _extract_isnull_bytemap, as written ---- *)
BufferOffsets(L) == << Sub0(L.offs[1], L.off, L.off + L.len + 1) >> \o Tail(L.offs)   \* first level sliced by the array offset only
RECURSIVE Compose(_, _, _)
Compose(bo, level, x) == IF level > Len(bo) THEN x ELSE Compose(bo, level + 1, At0(bo[level], x))
FlatValues(L) == LET bo == BufferOffsets(L) IN
                 Sub0(L.values, Compose(bo, 2, At0(bo[1], 0)), Compose(bo, 2, At0(bo[1], Len(bo[1]) - 1)))
OuterOffsets(L) == LET bo == BufferOffsets(L) IN [i \in 1..Len(bo[1]) |-> Compose(bo, 2, bo[1][i])]
IsNull(L) == [i \in 1..L.len |-> IF L.bitmap = <<>> THEN FALSE ELSE Bit(L.bitmap, L.off + i - 1) = 0]   \* _perform_extract_isnull_bytemap
(* ring offsets handed to compute_area / compute_line_length for element i by _geometry_map_nested{1,2,3} *)
NestedOffsets(L, i) ==
    LET bo == BufferOffsets(L) IN
    IF Len(bo) = 1 THEN << At0(bo[1], i - 1), At0(bo[1], i) >>
    ELSE IF Len(bo) = 2 THEN Sub0(bo[2], At0(bo[1], i - 1), At0(bo[1], i) + 1)
    ELSE Sub0(bo[3], At0(bo[2], At0(bo[1], i - 1)), At0(bo[2], At0(bo[1], i)) + 1)

(* ---- abstract quantities ---- *)
RECURSIVE Leaves(_, _)
Leaves(v, depth) == IF depth = 1 THEN v ELSE FlattenSeq([j \in 1..Len(v) |-> Leaves(v[j], depth - 1)])
ElLeaves(e, K) == IF e.null THEN <<>> ELSE Leaves(e.v, K)
RECURSIVE RingsOf(_, _)
RingsOf(v, depth) == IF depth = 1 THEN <<v>> ELSE FlattenSeq([j \in 1..Len(v) |-> RingsOf(v[j], depth - 1)])

(* ---- D = P: what every computation built on the accessors relies on ---- *)
AccessorsExactFor(L, A, K) ==
    /\ Decode(L) = A                                                           \* the layout means A
    /\ IsNull(L) = [i \in 1..Len(A) |-> A[i].null]                              \* isna()
    /\ FlatValues(L) = FlattenSeq([i \in 1..Len(A) |-> ElLeaves(A[i], K)])      \* total_bounds, x / y of points
    /\ \A i \in 1..Len(A) :                                                     \* bounds rows, intersects_bounds start / stop
          Sub0(L.values, OuterOffsets(L)[i], OuterOffsets(L)[i + 1]) = ElLeaves(A[i], K)
    /\ \A i \in 1..Len(A) : ~A[i].null =>                                       \* length / area: exactly the element's rings
          LET no == NestedOffsets(L, i) IN
          [r \in 1..(Len(no) - 1) |-> Sub0(L.values, no[r], no[r + 1])] = RingsOf(A[i].v, K)
=============================================================================
