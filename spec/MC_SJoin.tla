------------------------------ MODULE MC_SJoin ------------------------------
(* C05 small scope: left frames of <= NL catalogue points (duplicates, a missing point), right frames of <= NR
   catalogue shapes of kind RKind (overlapping, matching nothing, empty / missing), every page size and key order of
   the left index.  One state per configuration; `expect` = the set of (l, r) row pairs the result must contain
   (0 = the unmatched side) for each `how`; DesignExact: the candidate + filter mechanism finds exactly Hit. *)
EXTENDS SJoin, GeoCatalogue, TLC
CONSTANTS RKind, NL, NR, MaxPS, AllPerms, Styles, FullLeft, Shard, NShards
VARIABLES lrows, rrows, ps, perm, lstyle, rstyle, expect

(* left points: on / off the right shapes, never on a polygon ring (odd coordinates fall strictly inside or outside) *)
LCat == << El(<< << <<P(1, 1)>> >> >>), El(<< << <<P(3, 3)>> >> >>), NULL, El(<< << <<P(2, 2)>> >> >>),
           El(<< << <<P(5, 1)>> >> >>), El(<< << <<P(1, 1)>> >> >>), El(<< << <<P(0, 0)>> >> >>), El(<< << <<P(4, 4)>> >> >>),
           El(<< << <<P(3, 1)>> >> >>), El(<< << <<P(1, 3)>> >> >>) >>
RCat == CatOf(RKind)
LG == [i \in 1..Len(lrows) |-> LCat[lrows[i]]]
RG == [i \in 1..Len(rrows) |-> RCat[rrows[i]]]
Perms(s) == {p \in [1..Len(s) -> SeqSet(s)] : \A i, j \in 1..Len(s) : i # j => p[i] # p[j]}
Hash(s) == LET RECURSIVE H(_)
               H(i) == IF i > Len(s) THEN 0 ELSE (i * s[i] + 7 * H(i + 1)) % 100003
           IN H(1)

ASSUME PrintT(<<"LCAT", LCat>>)
ASSUME \A how \in {"inner", "left", "right"}, clash \in BOOLEAN, sp \in {<<"left", "right">>, <<"L", "R">>} :
          PrintT(<<"NAMES", how, clash, sp[1], sp[2], Names(how, clash, sp[1], sp[2])>>)

Init == /\ lrows \in (IF FullLeft THEN {[i \in 1..Len(LCat) |-> i]} ELSE UNION {[1..k -> 1..Len(LCat)] : k \in 0..NL})
        /\ rrows \in UNION {[1..k -> 1..Len(RCat)] : k \in 0..NR}
        /\ (Hash(lrows) + 3 * Hash(rrows)) % NShards = Shard
        /\ ps \in 1..MaxPS /\ lstyle \in Styles /\ rstyle \in Styles
        /\ perm \in (IF AllPerms THEN Perms(SelectRows([i \in 1..Len(lrows) |-> Bounds(LCat[lrows[i]])], 0, TRUE))
                     ELSE {SelectRows([i \in 1..Len(lrows) |-> Bounds(LCat[lrows[i]])], 0, TRUE)})
        /\ expect = [ undecided |-> Undecided([i \in 1..Len(lrows) |-> LCat[lrows[i]]], RKind, [i \in 1..Len(rrows) |-> RCat[rrows[i]]]),
                      hit |-> Hit([i \in 1..Len(lrows) |-> LCat[lrows[i]]], RKind, [i \in 1..Len(rrows) |-> RCat[rrows[i]]]),
                      rows |-> LET H == Hit([i \in 1..Len(lrows) |-> LCat[lrows[i]]], RKind, [i \in 1..Len(rrows) |-> RCat[rrows[i]]])
                                   L == LeftFrame(lrows, lstyle)
                                   R == RightFrame(rrows, rstyle)
                               IN [inner |-> Join("inner", L, R, H), left |-> Join("left", L, R, H), right |-> Join("right", L, R, H)] ]
Next == UNCHANGED <<lrows, rrows, ps, perm, lstyle, rstyle, expect>>

DesignExact == ~expect.undecided => DPairs(LG, RKind, RG, perm, ps) = expect.hit
=============================================================================
