--------------------------- MODULE HilbertSkilling ---------------------------
(* D level for C07: transcription of spatialpandas/spatialindex/hilbert_curve.py (Skilling's
   transpose algorithm) for any number of dimensions n, on integers with bitwise operators.
   coord is a 1-based sequence here (coord[i + 1] is the code's coord[i]). *)
EXTENDS Integers, Sequences, Bitwise

RECURSIVE Pw2(_)
Pw2(n) == IF n = 0 THEN 1 ELSE 2 * Pw2(n - 1)
Has(v, Q) == (v & Q) # 0

(* ---- distance_from_coordinate ---- *)
(* inner loop "for i in range(n)" of the inverse undo-excess-work step, for a fixed Q *)
RECURSIVE InvUndoInner(_, _, _)
InvUndoInner(c, Q, i) ==
    IF i > Len(c) THEN c
    ELSE IF Has(c[i], Q) THEN InvUndoInner([c EXCEPT ![1] = c[1] ^^ (Q - 1)], Q, i + 1)
    ELSE LET t == (c[1] ^^ c[i]) & (Q - 1)
             c1 == [c EXCEPT ![1] = c[1] ^^ t]
         IN InvUndoInner([c1 EXCEPT ![i] = c1[i] ^^ t], Q, i + 1)
RECURSIVE InvUndo(_, _)
InvUndo(c, Q) == IF Q <= 1 THEN c ELSE InvUndo(InvUndoInner(c, Q, 1), Q \div 2)      \* while Q > 1: ...; Q >>= 1
RECURSIVE GrayEnc(_, _)
GrayEnc(c, i) == IF i > Len(c) THEN c ELSE GrayEnc([c EXCEPT ![i] = c[i] ^^ c[i - 1]], i + 1)   \* for i in range(1, n)
RECURSIVE TMask(_, _, _)
TMask(last, Q, t) == IF Q <= 1 THEN t ELSE TMask(last, Q \div 2, IF Has(last, Q) THEN t ^^ (Q - 1) ELSE t)
(* _transpose_to_hilbert_integer: bit i (from the top) of every dimension in turn *)
BitAt(v, p, i) == (v \div Pw2(p - i)) % 2                      \* i = 1 is the most significant of p bits
RECURSIVE Interleave2(_, _, _, _)
Interleave2(c, p, i, j) ==
    IF i > p THEN 0
    ELSE LET rest == IF j < Len(c) THEN Interleave2(c, p, i, j + 1) ELSE Interleave2(c, p, i + 1, 1)
             pos  == (p - i) * Len(c) + (Len(c) - j)             \* weight of this bit in h
         IN BitAt(c[j], p, i) * Pw2(pos) + rest
DistanceFromCoordinate(p, coord) ==
    LET n  == Len(coord)
        M  == Pw2(p - 1)
        c1 == InvUndo(coord, M)
        c2 == GrayEnc(c1, 2)
        t  == TMask(c2[n], M, 0)
        c3 == [i \in 1..n |-> c2[i] ^^ t]
    IN Interleave2(c3, p, 1, 1)

(* ---- coordinate_from_distance ---- *)
(* _hilbert_integer_to_transpose: x[i] = bits h_bits[i::n] *)
RECURSIVE Deinterleave(_, _, _, _, _)
Deinterleave(h, p, n, j, i) ==            \* value of dimension j (1-based): bits at positions (i-1)*n + j, i = 1..p from the top
    IF i > p THEN 0
    ELSE ((h \div Pw2((p - i) * n + (n - j))) % 2) * Pw2(p - i) + Deinterleave(h, p, n, j, i + 1)
RECURSIVE GrayDec(_, _)
GrayDec(c, i) == IF i < 2 THEN c ELSE GrayDec([c EXCEPT ![i] = c[i] ^^ c[i - 1]], i - 1)     \* for i in range(n-1, 0, -1)
RECURSIVE UndoInner(_, _, _)
UndoInner(c, Q, i) ==                                                                      \* for i in range(n-1, -1, -1)
    IF i < 1 THEN c
    ELSE IF Has(c[i], Q) THEN UndoInner([c EXCEPT ![1] = c[1] ^^ (Q - 1)], Q, i - 1)
    ELSE LET t == (c[1] ^^ c[i]) & (Q - 1)
             c1 == [c EXCEPT ![1] = c[1] ^^ t]
         IN UndoInner([c1 EXCEPT ![i] = c1[i] ^^ t], Q, i - 1)
RECURSIVE Undo(_, _, _)
Undo(c, Q, Z) == IF Q = Z THEN c ELSE Undo(UndoInner(c, Q, Len(c)), 2 * Q, Z)              \* while Q != Z: ...; Q <<= 1
CoordinateFromDistance(p, n, h) ==
    LET c0 == [j \in 1..n |-> Deinterleave(h, p, n, j, 1)]
        Z  == 2 * Pw2(p - 1)
        t  == c0[n] \div 2
        c1 == GrayDec(c0, n)
        c2 == [c1 EXCEPT ![1] = c1[1] ^^ t]
    IN Undo(c2, 2, Z)
=============================================================================
