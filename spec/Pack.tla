--------------------------------- MODULE Pack ---------------------------------
(* C09 (and the row / order part of C10): what pack_partitions promises.
   Input: the rows of the whole frame, each with its active-geometry element; the result: a sequence of partitions,
   each a sequence of <<row id, key>> where key is the row's new index value (its Hilbert distance) as base-4 digits.
   PackOK: exactly the requested number of partitions; the ids are a permutation of the input ids (every row exactly
   once, missing geometries included); keys are non-decreasing inside every partition and from one partition to the
   next; every key is the Hilbert distance of the row's active geometry against the total bounds of the WHOLE frame
   (equality on the exact domain of HilbertDist, range elsewhere).  Nothing here depends on how the input was
   partitioned - which is the independence clause. *)
EXTENDS HilbertDist

RECURSIVE LexLeq(_, _)
LexLeq(a, b) == IF a = <<>> THEN TRUE ELSE IF Head(a) < Head(b) THEN TRUE ELSE IF Head(a) > Head(b) THEN FALSE ELSE LexLeq(Tail(a), Tail(b))
FlatRows(parts) == FlattenSeq(parts)
Sorted(rows) == \A i \in 1..(Len(rows) - 1) : LexLeq(rows[i][2], rows[i + 1][2])
KeyOK(e, tb, p, dg) ==
    /\ Len(dg) = p /\ \A i \in 1..p : dg[i] \in 0..3
    /\ ExactDomain(Bounds(e), tb) => dg = DistanceDigits(Bounds(e), tb, p)
PackOK(elems, p, nparts, parts) ==
    LET rows == FlatRows(parts)
        tb   == TotalBounds(elems)
    IN /\ Len(parts) = nparts
       /\ Len(rows) = Len(elems)
       /\ {rows[i][1] : i \in 1..Len(rows)} = 1..Len(elems)
       /\ Sorted(rows)
       /\ \A i \in 1..Len(rows) : KeyOK(elems[rows[i][1]], tb, p, rows[i][2])
WhyNot(elems, p, nparts, parts) ==
    LET rows == FlatRows(parts)
        tb   == TotalBounds(elems)
    IN IF Len(parts) # nparts THEN "partition-count"
       ELSE IF Len(rows) # Len(elems) \/ {rows[i][1] : i \in 1..Len(rows)} # 1..Len(elems) THEN "rows-lost-or-duplicated"
       ELSE IF ~Sorted(rows) THEN "not-sorted"
       ELSE IF ~\A i \in 1..Len(rows) : KeyOK(elems[rows[i][1]], tb, p, rows[i][2]) THEN "wrong-key"
       ELSE "ok"
=============================================================================
