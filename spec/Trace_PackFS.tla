----------------------------- MODULE Trace_PackFS -----------------------------
(* C10 / C18 / C19, code -> spec: one recorded execution of pack_partitions_to_parquet (events of the recording filesystem,
   ordered by the recorder's sequence number) is replayed against PackFS.

   Header  TRACE_FILE line 1: {assign: [[k, ..] per input partition], final_status: "returned" | "raised", tree: [[path, type], ..]}
   Events  lines 2..: {task: ["main", 0] | ["proc", i] | ["cat", k], op, p1, p2, kind: "protocol" | "foreign", injected: 0 | 1,
                       ans: -1 | 0 | 1 (exists / isfile / isdir answers), ls: [paths]}
   A "protocol" event (issued by one of the retry-wrapped helpers of pack_partitions_to_parquet) must be EXACTLY the call
   PackFS!CallAt expects next from that task, and the task takes one PackFS step - a fault step iff the event was injected;
   its logged answer must be what the model's filesystem says.  A "foreign" event (pyarrow / the readers looking at the
   filesystem) changes nothing and its answer must agree with the model's filesystem.  Steps of the model without a
   filesystem call are silent.  The trace is accepted iff all events can be consumed, the model ends in the recorded status
   and the model's filesystem equals the recorded final directory tree.  CleanFinal, RerunRestores and NoSharedWrites are
   checked as invariants on the way. *)
EXTENDS PackFS, Json, IOUtils

TraceLog == ndJsonDeserialize(IOEnv.TRACE_FILE)
Header == TraceLog[1]
NEvents == Len(TraceLog) - 1
Ev(j) == TraceLog[j + 1]
VARIABLES l
tvars == <<vars, l>>

ModelAnswer(e) ==
    CASE e.op = "exists" -> IF Exists(fs, e.p1) THEN 1 ELSE 0
      [] e.op = "isfile" -> IF IsFile(fs, e.p1) THEN 1 ELSE 0
      [] e.op = "isdir"  -> IF IsDir(fs, e.p1) THEN 1 ELSE 0
      [] OTHER -> -1
Known(p) == p \in AllPaths
TInit == /\ assign = [i \in Ins |-> {Header.assign[i][j] : j \in 1..Len(Header.assign[i])}] /\ InitRest /\ l = 1
(* silent steps of different tasks commute; to keep the search linear a task may move silently only when it is the one the
   next event belongs to, when it is main, when it is finishing (a proc task after its last write), or when the log is consumed *)
MaySilent(t) == \/ l > NEvents
                \/ t = MAIN
                \/ <<Ev(l).task[1], Ev(l).task[2]>> = t
                \/ (t[1] = "proc" /\ NextAssigned(t[2], pc[t][2]) >= NOut)
Silent == /\ \E t \in Tasks : CallAt(t).op = "none" /\ MaySilent(t) /\ TaskStep(t)
          /\ UNCHANGED l
Protocol == /\ l <= NEvents /\ Ev(l).kind = "protocol"
            /\ LET e == Ev(l)
                   t == <<e.task[1], e.task[2]>>
               IN /\ CallAt(t) = [op |-> e.op, p1 |-> e.p1, p2 |-> e.p2]
                  /\ TaskStep(t)
                  /\ (e.injected = 1) = (faults' = faults + 1)
                  /\ (e.injected = 0 /\ e.ans # -1) => e.ans = ModelAnswer(e)
                  /\ (e.injected = 0 /\ e.op = "ls" /\ IsDir(fs, e.p1)) => {e.ls[j] : j \in 1..Len(e.ls)} = Children(fs, e.p1)
            /\ l' = l + 1
Foreign == /\ l <= NEvents /\ Ev(l).kind = "foreign" /\ Ev(l).injected = 0
           /\ LET e == Ev(l) IN (e.ans # -1 /\ Known(e.p1)) => e.ans = ModelAnswer(e)
           /\ l' = l + 1 /\ UNCHANGED vars
(* an injected fault in a reader's own call: the task must be inside a reader, and takes the fault step of that label *)
ForeignFault == /\ l <= NEvents /\ Ev(l).kind = "foreign" /\ Ev(l).injected = 1
                /\ LET t == <<Ev(l).task[1], Ev(l).task[2]>> IN Reading(t) /\ TaskStep(t) /\ faults' = faults + 1
                /\ l' = l + 1
(* .. or the reader absorbs the error itself (pyarrow / dask probe paths inside try blocks): nothing happens *)
ForeignAbsorbed == /\ l <= NEvents /\ Ev(l).kind = "foreign" /\ Ev(l).injected = 1
                   /\ faults' = faults + 1 /\ l' = l + 1
                   /\ UNCHANGED <<fs, pc, att, wstart, data, result, assign, status, gen, reran, writes, phase>>
TNext == Silent \/ Protocol \/ Foreign \/ ForeignFault \/ ForeignAbsorbed \/ (Rerun /\ UNCHANGED l)
TSpec == TInit /\ [][TNext]_tvars

TreeMatches == \A p \in AllPaths :
                  LET want == IF \E j \in 1..Len(Header.tree) : Header.tree[j].p = p
                              THEN Header.tree[CHOOSE j \in 1..Len(Header.tree) : Header.tree[j].p = p].ty ELSE "absent"
                  IN fs[p].ty = want
Accepting == l = NEvents + 1 /\ status = Header.final_status /\ TreeMatches
(* checked as an "invariant" that MUST be violated: TLC finding an accepting state is the acceptance of the trace *)
NotAccepted == ~Accepting
(* how far the trace could be consumed (for diagnosing a rejection) *)
ASSUME TLCSet(1, 0)
Progress == TLCSet(1, IF l > TLCGet(1) THEN l ELSE TLCGet(1))
PrintProgress == PrintT(<<"PROGRESS", TLCGet(1)>>)
=============================================================================
