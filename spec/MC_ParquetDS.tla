----------------------------- MODULE MC_ParquetDS -----------------------------
(* TLC: for 1..MaxParts partitions the string round trip of partition numbers (file names, JSON keys) followed by the
   natural sort / integer conversion restores numeric order, and without them it does NOT once there are more than ten
   partitions (so the replay must use more than ten to be sensitive). *)
EXTENDS ParquetDS, TLC
CONSTANTS MaxParts
VARIABLES n
Init == n \in 1..MaxParts
Next == UNCHANGED n
NumericOrder == LoadOrderIsNumeric(n)
Sensitive == (n > 10) => LoadOrder(n, FALSE) # [j \in 1..n |-> j - 1]
=============================================================================
