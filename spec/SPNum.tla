------------------------------- MODULE SPNum -------------------------------
(* Numbers as spatialpandas sees them: exact integers (the model's coordinate grid) plus three
   reserved values standing for IEEE NaN, +inf and -inf.  TLC refuses to compare values of
   different types, so the reserved values are integers far outside every grid; +inf / -inf
   are ordered correctly by plain integer comparison, NaN is handled by the operators below
   (every comparison with NaN is FALSE, as in IEEE 754 and therefore in numpy / numba). *)
EXTENDS Integers, Sequences, FiniteSets

NaN  == 777777777
PInf == 555555555
NInf == -555555555

IsNaN(a)    == a = NaN
IsFinite(a) == a # NaN /\ a # PInf /\ a # NInf

Lt(a, b) == a # NaN /\ b # NaN /\ a < b
Le(a, b) == a # NaN /\ b # NaN /\ a <= b
Gt(a, b) == a # NaN /\ b # NaN /\ a > b
Ge(a, b) == a # NaN /\ b # NaN /\ a >= b
Eq(a, b) == a # NaN /\ b # NaN /\ a = b

Min2(a, b) == IF a <= b THEN a ELSE b
Max2(a, b) == IF a >= b THEN a ELSE b
Abs(a)     == IF a < 0 THEN -a ELSE a
Sign(a)    == IF a > 0 THEN 1 ELSE IF a < 0 THEN -1 ELSE 0

(* numpy / numba np.min, np.max over an array: NaN propagates. *)
NpMin(S) == IF NaN \in S THEN NaN ELSE CHOOSE m \in S : \A x \in S : m <= x
NpMax(S) == IF NaN \in S THEN NaN ELSE CHOOSE m \in S : \A x \in S : m >= x
(* np.nanmin / np.nanmax: NaN ignored, NaN when nothing else is there. *)
NanMin(S) == LET T == S \ {NaN} IN IF T = {} THEN NaN ELSE CHOOSE m \in T : \A x \in T : m <= x
NanMax(S) == LET T == S \ {NaN} IN IF T = {} THEN NaN ELSE CHOOSE m \in T : \A x \in T : m >= x
(* min / max over the finite values only (total_bounds_interleaved): NaN when there are none. *)
FinMin(S) == LET T == {x \in S : IsFinite(x)} IN
             IF T = {} THEN NaN ELSE CHOOSE m \in T : \A x \in T : m <= x
FinMax(S) == LET T == {x \in S : IsFinite(x)} IN
             IF T = {} THEN NaN ELSE CHOOSE m \in T : \A x \in T : m >= x
(* Python's two-argument min(a, b) as numba compiles it for floats:  b if b < a else a *)
PyMin(a, b) == IF Lt(b, a) THEN b ELSE a
PyMax(a, b) == IF Gt(b, a) THEN b ELSE a

SeqSet(s)  == {s[i] : i \in 1..Len(s)}
NoDup(s)   == \A i, j \in 1..Len(s) : i # j => s[i] # s[j]
RECURSIVE SumSeq(_)
SumSeq(s)  == IF s = <<>> THEN 0 ELSE Head(s) + SumSeq(Tail(s))
RECURSIVE Pow2(_)
Pow2(n)    == IF n = 0 THEN 1 ELSE 2 * Pow2(n - 1)
=============================================================================
