------------------------------- MODULE MC_Inert -------------------------------
(* C17 inside the specification: the P-level operators (SPGeom!BoxHit, SPMeasure!Bounds / TotalBounds,
   GeoFrameOps!PCx and the mechanism DCx with an index of every page size) satisfy the inert-row relation for
   every catalogue array of <= N rows, every set J of insertion positions and every inert flavour of the kind. *)
EXTENDS Inert, GeoFrameOps, GeoCatalogue, TLC
CONSTANTS Kind, N, MaxJ, MaxPS, Shard, NShards
VARIABLES base, J, inert, ps

Cat == CatOf(Kind)
Live == {i \in 1..Len(Cat) : ~Cat[i].null /\ (\E p \in 1..Len(Cat[i].g) : \E r \in 1..Len(Cat[i].g[p]) : \E k \in 1..Len(Cat[i].g[p][r]) :
                                               ~IsNaN(Cat[i].g[p][r][k][1]))}
InertEls == {Cat[i] : i \in (1..Len(Cat)) \ Live}            \* the catalogue's missing / empty elements
RECURSIVE Insert(_, _, _, _)
Insert(arr, JJ, e, k) ==                                     \* build the extended sequence position by position
    IF arr = <<>> /\ \A j \in JJ : j < k THEN <<>>
    ELSE IF k \in JJ THEN <<e>> \o Insert(arr, JJ, e, k + 1)
    ELSE IF arr = <<>> THEN <<>> ELSE <<Head(arr)>> \o Insert(Tail(arr), JJ, e, k + 1)
Hash(s) == LET RECURSIVE H(_)
               H(i) == IF i > Len(s) THEN 0 ELSE (i * s[i] + 7 * H(i + 1)) % 100003
           IN H(1)
Boxes == { <<1, 1, 3, 3>>, <<-1, -1, 1, 1>>, <<0, 0, 4, 4>>, <<3, 0, 5, 2>>, <<5, 5, 6, 6>> }
Keys == { << <<OMIT, OMIT, 0>>, <<OMIT, OMIT, 0>> >>, << <<1, 3, 0>>, <<1, 3, 0>> >>, << <<OMIT, 2, 0>>, <<1, OMIT, 0>> >>,
          << <<3, 5, 0>>, <<0, 2, 0>> >> }

Init == /\ \E rows \in UNION {[1..k -> Live] : k \in 0..N} :
              /\ Hash(rows) % NShards = Shard
              /\ base = [i \in 1..Len(rows) |-> Cat[rows[i]]]
        /\ inert \in InertEls
        /\ \E m \in 1..MaxJ : J \in {S \in SUBSET (1..(Len(base) + m)) : Cardinality(S) = m}
        /\ ps \in 1..MaxPS
Next == UNCHANGED <<base, J, inert, ps>>

Ext == Insert(base, J, inert, 1)
Valid == Len(Ext) = Len(base) + Cardinality(J)                       \* J is a legal set of insertion positions
Ident(n) == [i \in 1..n |-> i - 1]
InertInP == Valid =>
    /\ \A B \in Boxes : RowwiseOK([i \in 1..Len(base) |-> BoxHit(Kind, base[i], B)], [i \in 1..Len(Ext) |-> BoxHit(Kind, Ext[i], B)],
                                   J, BoxHit(Kind, inert, B), FALSE)
                         /\ \A k \in J : BoxHit(Kind, Ext[k], B) \in {"F", "U"}
    /\ RowwiseOK([i \in 1..Len(base) |-> Bounds(base[i])], [i \in 1..Len(Ext) |-> Bounds(Ext[i])], J, NaNRow, TRUE)
    /\ AggregateOK(TotalBounds(base), TotalBounds(Ext))
    /\ \A key \in Keys : (~Unspecified(Kind, base, key) /\ ~Unspecified(Kind, Ext, key)) =>
          /\ SelectionOK(PCx(Kind, base, key), PCx(Kind, Ext, key), J)
          (* the mechanism with an index, any page size (key order: input order of the rows with defined bounds) *)
          /\ SelectionOK(DCx(Kind, base, [ps |-> ps, perm |-> SelectRows(BoundsRows(base), 0, TRUE)], key),
                         DCx(Kind, Ext, [ps |-> ps, perm |-> SelectRows(BoundsRows(Ext), 0, TRUE)], key), J)
=============================================================================
