---------------------------- MODULE Trace_GeoFrame ----------------------------
(* C04, code -> spec: every .cx call of the random driver, judged by GeoFrameOps!PCx.
     {kind, elems, key: [[lo, hi, scalar], [lo, hi, scalar]], res: [1-based positions of the rows returned]}
   (OMIT = 999999 for an omitted slice end).  The index state of the object does not enter the judgement - the
   property says the result is the same with and without an index. *)
EXTENDS GeoFrameOps, Json, IOUtils, TLC

TraceLog == ndJsonDeserialize(IOEnv.TRACE_FILE)
VARIABLES l, verdict

Judge(r) == IF Unspecified(r.kind, r.elems, r.key) THEN "unspec"
            ELSE IF r.res = PCx(r.kind, r.elems, r.key) THEN "ok" ELSE "mismatch"
Init == \E i \in 1..Len(TraceLog) : l = i /\ verdict = Judge(TraceLog[i])
Next == UNCHANGED <<l, verdict>>
RecordOK == verdict # "mismatch"
=============================================================================
