--------------------------- MODULE MC_HilbertDist ---------------------------
(* C08, what TLC decides about the specification itself (small p, small extents):
   CellBits (any-p formulation) = Cell (arithmetic formulation) on the exact domain; Cell is monotone in the
   centre, clamps centres outside to the border cells, sends the upper edge to the last cell, and a zero
   extent is widened so that the single centre lands in cell 0 .. *)
EXTENDS HilbertDist, TLC
CONSTANTS PMax, CMax
VARIABLES lo, hi, p, c2

Init == /\ lo \in 0..CMax /\ hi \in {h \in lo..(lo + 8) : IsPow2(Widen(lo, h) - lo)}
        /\ p \in 1..PMax /\ c2 \in (-4)..(2 * (CMax + 10))
Next == UNCHANGED <<lo, hi, p, c2>>

BitsAgree == ValOf(CellBits(c2, lo, hi, p), 2) = Cell(c2, lo, hi, p)
Monotone  == Cell(c2, lo, hi, p) <= Cell(c2 + 1, lo, hi, p)
Clamps    == /\ (c2 <= 2 * lo => Cell(c2, lo, hi, p) = 0)
             /\ (c2 >= 2 * Widen(lo, hi) => Cell(c2, lo, hi, p) = P2(p) - 1)
InGrid    == Cell(c2, lo, hi, p) \in 0..(P2(p) - 1)
=============================================================================
