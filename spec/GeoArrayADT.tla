----------------------------- MODULE GeoArrayADT -----------------------------
(* C16, P level: a geometry array is a sequence of elements (here: indices into a catalogue; index NullIx is the
   missing element).  Every derivation the pandas ExtensionArray interface offers is an action that yields either
   a new sequence or the error class pandas expects.  Python's indexing conventions are spelled out
   (negative indices, slices with any step, take with / without fill). *)
EXTENDS Integers, Sequences, FiniteSets

CONSTANTS NullIx
NONEV == 99999                       \* "None" in a slice

(* ---- Python slice(start, stop, step).indices(n) -> the sequence of selected 0-based positions ---- *)
Clamp(v, lo, hi) == IF v < lo THEN lo ELSE IF v > hi THEN hi ELSE v
SliceStart(n, start, step) ==
    IF start = NONEV THEN (IF step > 0 THEN 0 ELSE n - 1)
    ELSE IF start < 0 THEN (IF step > 0 THEN Clamp(start + n, 0, n) ELSE Clamp(start + n, -1, n - 1))
    ELSE (IF step > 0 THEN Clamp(start, 0, n) ELSE Clamp(start, -1, n - 1))
SliceStop(n, stop, step) ==
    IF stop = NONEV THEN (IF step > 0 THEN n ELSE -1)
    ELSE IF stop < 0 THEN (IF step > 0 THEN Clamp(stop + n, 0, n) ELSE Clamp(stop + n, -1, n - 1))
    ELSE (IF step > 0 THEN Clamp(stop, 0, n) ELSE Clamp(stop, -1, n - 1))
RECURSIVE Range(_, _, _)
Range(a, b, step) == IF (step > 0 /\ a >= b) \/ (step < 0 /\ a <= b) THEN <<>> ELSE <<a>> \o Range(a + step, b, step)
PySlice(n, start, stop, step) == Range(SliceStart(n, start, step), SliceStop(n, stop, step), step)

OK(s)   == [ok |-> TRUE, seq |-> s, err |-> ""]
Err(e)  == [ok |-> FALSE, seq |-> <<>>, err |-> e]
At(s, positions) == [k \in 1..Len(positions) |-> s[positions[k] + 1]]

(* arr[i] *)
GetItem(s, i) == IF i < -Len(s) \/ i >= Len(s) THEN Err("IndexError")
                 ELSE OK(<<s[(IF i < 0 THEN i + Len(s) ELSE i) + 1]>>)
(* arr[start:stop:step] *)
Slice(s, start, stop, step) == OK(At(s, PySlice(Len(s), start, stop, step)))
(* arr[mask], mask a sequence of 0 / 1 (2 = NA) *)
RECURSIVE MaskSel(_, _)
MaskSel(s, m) == IF s = <<>> THEN <<>> ELSE (IF Head(m) = 1 THEN <<Head(s)>> ELSE <<>>) \o MaskSel(Tail(s), Tail(m))
Mask(s, m) == IF Len(m) = 0 THEN OK(<<>>)
              ELSE IF Len(m) # Len(s) THEN Err("IndexError")
              ELSE IF \E i \in 1..Len(m) : m[i] = 2 THEN Err("ValueError")
              ELSE OK(MaskSel(s, m))
(* arr[[i, j, ..]] and take(idx, allow_fill = False): negatives wrap *)
Wrap(s, idx) == [k \in 1..Len(idx) |-> IF idx[k] < 0 THEN idx[k] + Len(s) ELSE idx[k]]
TakeNoFill(s, idx) ==
    IF Len(idx) = 0 THEN OK(<<>>)
    ELSE IF Len(s) = 0 THEN Err("IndexError")
    ELSE IF \E k \in 1..Len(idx) : idx[k] >= Len(s) \/ idx[k] < -Len(s) THEN Err("IndexError")
    ELSE OK(At(s, Wrap(s, idx)))
(* take(idx, allow_fill = True): -1 -> missing, < -1 -> ValueError *)
TakeFill(s, idx) ==
    IF Len(idx) = 0 THEN OK(<<>>)
    ELSE IF Len(s) = 0 /\ \E k \in 1..Len(idx) : idx[k] >= 0 THEN Err("IndexError")
    ELSE IF \E k \in 1..Len(idx) : idx[k] >= Len(s) THEN Err("IndexError")
    ELSE IF \E k \in 1..Len(idx) : idx[k] < -1 THEN Err("ValueError")
    ELSE OK([k \in 1..Len(idx) |-> IF idx[k] = -1 THEN NullIx ELSE s[idx[k] + 1]])
(* ---- derivations pandas builds on top of take / concat / isna (Series.shift, repeat, dropna, fillna; array insert / delete) ---- *)
Shift(s, k) == LET n == Len(s) IN
               OK([i \in 1..n |-> IF i - k >= 1 /\ i - k <= n THEN s[i - k] ELSE NullIx])
Repeat(s, r) == OK([i \in 1..(r * Len(s)) |-> s[((i - 1) \div r) + 1]])
DropNa(s) == OK(SelectSeq(s, LAMBDA e : e # NullIx))
FillNa(s, v) == OK([i \in 1..Len(s) |-> IF s[i] = NullIx THEN v ELSE s[i]])
(* array.insert(loc, item): loc in -n..n (negative counts from the end), else IndexError *)
Insert(s, loc, v) == LET n == Len(s)
                         p == IF loc < 0 THEN loc + n ELSE loc
                     IN IF loc < -n \/ loc > n THEN Err("IndexError")
                        ELSE OK(SubSeq(s, 1, p) \o <<v>> \o SubSeq(s, p + 1, n))
(* array.delete(positions): positions a set of valid 0-based positions *)
Delete(s, P) == IF \E q \in P : q >= Len(s) \/ q < -Len(s) THEN Err("IndexError")
                ELSE LET W == {IF q < 0 THEN q + Len(s) ELSE q : q \in P}
                         RECURSIVE Keep(_)
                         Keep(i) == IF i > Len(s) THEN <<>> ELSE (IF (i - 1) \in W THEN <<>> ELSE <<s[i]>>) \o Keep(i + 1)
                     IN OK(Keep(1))
Concat(s, t) == OK(s \o t)
Same(s) == OK(s)                      \* copy, pickle round trip, iteration, Series wrap
=============================================================================
