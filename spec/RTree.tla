------------------------------- MODULE RTree -------------------------------
(* D level: the Hilbert R-tree of spatialpandas/spatialindex/rtree.py as the code builds and queries
   it, and P level: the brute-force meaning of its queries (property C03).

   A box in n dimensions is a sequence <<min_1, .., min_n, max_1, .., max_n>>; a row whose box holds a
   NaN is "undefined" (missing or empty geometry).  Rows are numbered 0 .. N-1 as in the code; `bs` is
   the sequence of input boxes (bs[i + 1] is row i).  The order in which the code sorts rows (argsort of
   Hilbert distances, unstable for ties) is an ARBITRARY PERMUTATION `perm` of the indexed rows here,
   so every statement below is independent of the curve order p and of tie breaking.

   FilterNaN = TRUE  is the design after commit "fix: R-tree leaves rows with NaN bounds out of the
   index"; FilterNaN = FALSE is the original design, kept so that TLC can exhibit the defect from the
   mechanism alone (selftest: the invariants must FAIL for it). *)
EXTENDS SPNum

Dim(b) == Len(b) \div 2
IsNaNBox(b) == \E i \in 1..Len(b) : IsNaN(b[i])
NaNBox(n) == [i \in 1..(2 * n) |-> NaN]

(* ---------------------------------- P: brute force ---------------------------------- *)
Overlaps(b, q)  == ~IsNaNBox(b) /\ \A d \in 1..Dim(b) : b[d] <= q[d + Dim(b)] /\ b[d + Dim(b)] >= q[d]
CoveredBy(b, q) == ~IsNaNBox(b) /\ \A d \in 1..Dim(b) : b[d] >= q[d] /\ b[d + Dim(b)] <= q[d + Dim(b)]
BruteIntersects(bs, q) == {i \in 0..(Len(bs) - 1) : Overlaps(bs[i + 1], q)}
BruteCovers(bs, q)     == {i \in 0..(Len(bs) - 1) : CoveredBy(bs[i + 1], q)}
BruteOverlapsOnly(bs, q) == BruteIntersects(bs, q) \ BruteCovers(bs, q)
BruteTotal(bs, n) ==
    LET V == {i \in 1..Len(bs) : ~IsNaNBox(bs[i])} IN
    IF V = {} THEN NaNBox(n)
    ELSE [k \in 1..(2 * n) |-> IF k <= n THEN NpMin({bs[i][k] : i \in V}) ELSE NpMax({bs[i][k] : i \in V})]

(* ---------------------------------- D: build ---------------------------------- *)
(* rows that enter the index, in input order (0-based row numbers) *)
RECURSIVE SelectRows(_, _, _)
SelectRows(bs, i, filter) == IF i >= Len(bs) THEN <<>>
                             ELSE (IF filter /\ IsNaNBox(bs[i + 1]) THEN <<>> ELSE <<i>>) \o SelectRows(bs, i + 1, filter)
CeilDiv(a, b) == (a + b - 1) \div b
RECURSIVE Pow2AtLeast(_, _)
Pow2AtLeast(p, n) == IF p >= n THEN p ELSE Pow2AtLeast(2 * p, n)

NumPages(m, ps)  == CeilDiv(m, ps)
NextPow2(m, ps)  == Pow2AtLeast(1, NumPages(m, ps))          \* 2 ** ceil(log2(num_pages))
TreeLen(m, ps)   == 2 * NextPow2(m, ps) - 1
LeafStart(m, ps) == TreeLen(m, ps) - NextPow2(m, ps)

(* page g of the sorted boxes: np.min / np.max per column (NaN propagates) *)
PageBox(sorted, ps, g, n) ==
    LET rows == {k \in (g * ps + 1)..Min2(Len(sorted), g * ps + ps) : TRUE} IN
    [c \in 1..(2 * n) |-> IF c <= n THEN NpMin({sorted[k][c] : k \in rows}) ELSE NpMax({sorted[k][c] : k \in rows})]
(* union of two children, a child being valid iff its first coordinate is not NaN *)
Combine(l, r, n) ==
    IF ~IsNaN(l[1]) THEN (IF ~IsNaN(r[1])
                          THEN [c \in 1..(2 * n) |-> IF c <= n THEN PyMin(l[c], r[c]) ELSE PyMax(l[c], r[c])]
                          ELSE l)
    ELSE IF ~IsNaN(r[1]) THEN r ELSE NaNBox(n)
RECURSIVE FillUp(_, _, _)
FillUp(tree, v, n) == IF v < 0 THEN tree
                      ELSE FillUp([tree EXCEPT ![v + 1] = Combine(tree[2 * v + 2], tree[2 * v + 3], n)], v - 1, n)
(* bounds_tree, 1-based sequence of node boxes (node v of the code is tree[v + 1]) *)
BuildTree(sorted, ps, n) ==
    LET m  == Len(sorted)
        tl == TreeLen(m, ps)
        ls == LeafStart(m, ps)
        leaves == [v \in 1..tl |-> IF v - 1 >= ls /\ v - 1 - ls < NumPages(m, ps)
                                   THEN PageBox(sorted, ps, v - 1 - ls, n) ELSE NaNBox(n)]
    IN FillUp(leaves, ls - 1, n)

(* ---------------------------------- D: query ---------------------------------- *)
RECURSIVE StartIdx(_, _, _, _)
StartIdx(v, tl, ls, ps) == IF 2 * v + 1 >= tl THEN (v - ls) * ps ELSE StartIdx(2 * v + 1, tl, ls, ps)
RECURSIVE StopIdx(_, _, _, _)
StopIdx(v, tl, ls, ps)  == IF 2 * v + 2 >= tl THEN (v - ls + 1) * ps ELSE StopIdx(2 * v + 2, tl, ls, ps)

NodeOutside(nb, q, n) == \E d \in 1..n : Lt(q[n + d], nb[d]) \/ Gt(q[d], nb[n + d])
NodeInside(nb, q, n)  == ~\E d \in 1..n : Lt(nb[d], q[d]) \/ Gt(nb[n + d], q[n + d])

(* _maybe_intersects_ranges: <<covered ranges, maybe ranges>>, each a sequence of <<start, stop>> over
   key positions, in the order the code's explicit stack produces them (left child first) *)
RECURSIVE Trav(_, _, _, _, _, _, _)
Trav(tree, v, q, n, tl, ls, ps) ==
    LET nb == tree[v + 1] IN
    IF NodeOutside(nb, q, n) THEN << <<>>, <<>> >>
    ELSE LET s == StartIdx(v, tl, ls, ps)
             e == StopIdx(v, tl, ls, ps)
         IN
         IF NodeInside(nb, q, n) THEN << << <<s, e>> >>, <<>> >>
         ELSE IF e - s <= ps THEN << <<>>, << <<s, e>> >> >>
         ELSE LET L == Trav(tree, 2 * v + 1, q, n, tl, ls, ps)
                  R == Trav(tree, 2 * v + 2, q, n, tl, ls, ps)
              IN << L[1] \o R[1], L[2] \o R[2] >>

RowOutside(b, q, n) == \E d \in 1..n : Lt(b[d + n], q[d]) \/ Gt(b[d], q[d + n])
RowCovered(b, q, n) == \A d \in 1..n : Ge(b[d], q[d]) /\ Le(b[d + n], q[d + n])

(* keys[start:stop] with numpy's truncating slice semantics; keys / sorted are 1-based sequences *)
RECURSIVE SliceKeys(_, _, _, _, _, _)
SliceKeys(keys, sorted, pos, stop, Keep(_), acc) ==
    IF pos >= stop \/ pos >= Len(keys) THEN acc
    ELSE SliceKeys(keys, sorted, pos + 1, stop, Keep,
                   IF Keep(sorted[pos + 1]) THEN Append(acc, keys[pos + 1]) ELSE acc)
RECURSIVE OverRanges(_, _, _, _, _)
OverRanges(ranges, keys, sorted, Keep(_), acc) ==
    IF ranges = <<>> THEN acc
    ELSE OverRanges(Tail(ranges), keys, sorted, Keep,
                    SliceKeys(keys, sorted, Head(ranges)[1], Head(ranges)[2], Keep, acc))

Always(b) == TRUE
(* the three results of the jitclass, as sequences (order and multiplicity as the code produces them) *)
Query(bs, perm, ps, q, filter) ==
    LET n      == Dim(q)
        keys   == perm                                              \* row numbers in key order
        sorted == [k \in 1..Len(keys) |-> bs[keys[k] + 1]]
        m      == Len(keys)
    IN
    IF m = 0 THEN [intersects |-> <<>>, covers |-> <<>>, overlaps |-> <<>>, total |-> NaNBox(n)]
    ELSE
      LET tl   == TreeLen(m, ps)
          ls   == LeafStart(m, ps)
          tree == BuildTree(sorted, ps, n)
          rg   == Trav(tree, 0, q, n, tl, ls, ps)
          NotOut(b)  == ~RowOutside(b, q, n)
          Cov(b)     == RowCovered(b, q, n)
          Partial(b) == ~(RowOutside(b, q, n) \/ RowCovered(b, q, n))
      IN
      [ intersects |-> OverRanges(rg[2], keys, sorted, NotOut, OverRanges(rg[1], keys, sorted, Always, <<>>)),
        covers     |-> OverRanges(rg[2], keys, sorted, Cov, OverRanges(rg[1], keys, sorted, Always, <<>>)),
        overlaps   |-> OverRanges(rg[2], keys, sorted, Partial, <<>>),
        total      |-> tree[1] ]

(* ---------------------------------- D refines P ---------------------------------- *)
QueryExact(bs, perm, ps, q, filter) ==
    LET r == Query(bs, perm, ps, q, filter) IN
    /\ NoDup(r.intersects) /\ SeqSet(r.intersects) = BruteIntersects(bs, q)
    /\ NoDup(r.covers \o r.overlaps)
    /\ SeqSet(r.covers) = BruteCovers(bs, q)
    /\ SeqSet(r.overlaps) = BruteOverlapsOnly(bs, q)
    /\ r.total = BruteTotal(bs, Dim(q))
=============================================================================
