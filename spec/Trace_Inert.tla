------------------------------ MODULE Trace_Inert ------------------------------
(* C17, code -> spec: every (operation on A, same operation on A + inert rows) pair the driver performs on the real
   code, as opaque integer tokens:
     {op, rel: "row" | "agg" | "sel" | "pairs", base, ext, J, [JR], [inert], [fixed]}                       *)
EXTENDS Inert, Json, IOUtils, TLC
TraceLog == ndJsonDeserialize(IOEnv.TRACE_FILE)
VARIABLES l, verdict
SetOf(s) == {s[i] : i \in 1..Len(s)}
Judge(r) ==
    CASE r.rel = "row"   -> IF RowwiseOK(r.base, r.ext, SetOf(r.J), r.inert, r.fixed = 1) THEN "ok" ELSE "mismatch"
      [] r.rel = "agg"   -> IF AggregateOK(r.base, r.ext) THEN "ok" ELSE "mismatch"
      [] r.rel = "sel"   -> IF SelectionOK(r.base, r.ext, SetOf(r.J)) THEN "ok" ELSE "mismatch"
      [] r.rel = "pairs" -> IF PairsOK(r.base, r.ext, SetOf(r.J), SetOf(r.JR)) THEN "ok" ELSE "mismatch"
Init == \E i \in 1..Len(TraceLog) : l = i /\ verdict = Judge(TraceLog[i])
Next == UNCHANGED <<l, verdict>>
RecordOK == verdict # "mismatch"
=============================================================================
