------------------------------- MODULE Hilbert -------------------------------
(* P level for C07 (n = 2): the classical Hilbert curve, three ways.
   (1) the textbook recursion  H(1) = <<(0,0),(0,1),(1,1),(1,0)>>,
       H(p+1) = transpose(H(p)) \o (H(p) + (0,2^p)) \o (H(p) + (2^p,2^p)) \o (antitranspose(H(p)) + (2^p,0));
   (2) a 4-state transducer reading the coordinate bits most significant first and writing one base-4
       digit of the distance per step;
   (3) the finite lemma L1-L4 about the transducer from which bijectivity, unit steps, the corners and
       refinement follow for EVERY order p by the induction written out in DESIGN.md §4.2.
   TLC checks (1) = (2) for small p and (3) exhaustively (MC_Hilbert). *)
EXTENDS Integers, Sequences, FiniteSets

States == {"I", "T", "A", "R"}
(* quadrant (x bit, y bit) visited q-th (q = 0..3) from state s *)
Quad == [ I |-> << <<0, 0>>, <<0, 1>>, <<1, 1>>, <<1, 0>> >>,
          T |-> << <<0, 0>>, <<1, 0>>, <<1, 1>>, <<0, 1>> >>,
          A |-> << <<1, 1>>, <<0, 1>>, <<0, 0>>, <<1, 0>> >>,
          R |-> << <<1, 1>>, <<1, 0>>, <<0, 0>>, <<0, 1>> >> ]
NextSt == [ I |-> <<"T", "I", "I", "A">>,
            T |-> <<"I", "T", "T", "R">>,
            A |-> <<"R", "A", "A", "I">>,
            R |-> <<"A", "R", "R", "T">> ]
Start == "I"
Entry(s) == Quad[s][1]
Exit(s)  == Quad[s][4]

DigitOf(s, xb, yb) == CHOOSE q \in 0..3 : Quad[s][q + 1] = <<xb, yb>>

(* transducer: bits (most significant first) -> base-4 digits of the distance *)
RECURSIVE Encode(_, _, _)
Encode(s, xb, yb) == IF xb = <<>> THEN <<>>
                     ELSE LET q == DigitOf(s, Head(xb), Head(yb)) IN
                          <<q>> \o Encode(NextSt[s][q + 1], Tail(xb), Tail(yb))
(* and back: digits -> <<x bits, y bits>> *)
RECURSIVE Decode(_, _)
Decode(s, dg) == IF dg = <<>> THEN << <<>>, <<>> >>
                 ELSE LET c == Quad[s][Head(dg) + 1]
                          r == Decode(NextSt[s][Head(dg) + 1], Tail(dg))
                      IN << <<c[1]>> \o r[1], <<c[2]>> \o r[2] >>

RECURSIVE P2(_)
P2(n) == IF n = 0 THEN 1 ELSE 2 * P2(n - 1)
RECURSIVE BitsOf(_, _)
BitsOf(v, w) == IF w = 0 THEN <<>> ELSE BitsOf(v \div 2, w - 1) \o <<v % 2>>     \* w bits, most significant first
RECURSIVE ValOf(_, _)
ValOf(ds, base) == IF ds = <<>> THEN 0 ELSE ValOf(SubSeq(ds, 1, Len(ds) - 1), base) * base + ds[Len(ds)]
DistanceOf(x, y, p) == ValOf(Encode(Start, BitsOf(x, p), BitsOf(y, p)), 4)

RECURSIVE BitsOf4(_, _)
BitsOf4(d, p) == IF p = 0 THEN <<>> ELSE BitsOf4(d \div 4, p - 1) \o <<d % 4>>
CellOf(d, p) == LET r == Decode(Start, BitsOf4(d, p)) IN <<ValOf(r[1], 2), ValOf(r[2], 2)>>

(* (1) textbook recursion: sequence of cells in visiting order *)
RECURSIVE H(_)
H(p) == IF p = 1 THEN << <<0, 0>>, <<0, 1>>, <<1, 1>>, <<1, 0>> >>
        ELSE LET h == H(p - 1)
                 m == P2(p - 1)
                 n == Len(h)
             IN [i \in 1..n |-> <<h[i][2], h[i][1]>>]
                \o [i \in 1..n |-> <<h[i][1], h[i][2] + m>>]
                \o [i \in 1..n |-> <<h[i][1] + m, h[i][2] + m>>]
                \o [i \in 1..n |-> <<(m - 1 - h[i][2]) + m, m - 1 - h[i][1]>>]

(* (3) the finite lemma *)
L1 == \A s \in States : {Quad[s][q] : q \in 1..4} = {0, 1} \X {0, 1}
(* consecutive quadrants differ in exactly one axis a; the exit corner of the first sub-curve and the entry
   corner of the second agree off that axis and face each other on it *)
L2 == \A s \in States, q \in 1..3 :
        LET c1 == Quad[s][q]
            c2 == Quad[s][q + 1]
            x1 == Exit(NextSt[s][q])
            e2 == Entry(NextSt[s][q + 1])
        IN \E a \in 1..2 :
             /\ c1[a] # c2[a] /\ c1[3 - a] = c2[3 - a]
             /\ x1[3 - a] = e2[3 - a]
             /\ IF c2[a] > c1[a] THEN x1[a] = 1 /\ e2[a] = 0 ELSE x1[a] = 0 /\ e2[a] = 1
L3 == \A s \in States : /\ Quad[s][1] = Entry(s) /\ Entry(NextSt[s][1]) = Entry(s)
                        /\ Quad[s][4] = Exit(s)  /\ Exit(NextSt[s][4]) = Exit(s)
L4 == Entry(Start) = <<0, 0>> /\ Exit(Start) = <<1, 0>>
Lemma == L1 /\ L2 /\ L3 /\ L4

Adjacent(c1, c2) == (c1[1] = c2[1] /\ (c1[2] - c2[2] = 1 \/ c2[2] - c1[2] = 1))
                    \/ (c1[2] = c2[2] /\ (c1[1] - c2[1] = 1 \/ c2[1] - c1[1] = 1))
=============================================================================
