------------------------------ MODULE ActiveGeom ------------------------------
(* C20: the active geometry column of a (Dask)GeoDataFrame.
   P level - what the user may rely on:   active  the name of the active geometry column ("UNSPEC" when the property
             does not say, "NONE" for a plain DataFrame), kept by every operation that keeps the column.
   D level - the mechanism:               dgeom   the value of GeoDataFrame._geometry as pandas' propagation classes
             leave it:  FIN   result.__finalize__(source): _metadata copied from the source frame
                        MGR   _constructor_from_mgr without finalize: only a column literally named "geometry" is adopted
                        CTOR  GeoDataFrame(data) on plain data: first geometry column
                        CAT   concat: __finalize__(method = "concat") - kept when all inputs agree (commit "fix: concatenation ..")
             For a Dask frame: meta (the collection's _meta._geometry) and part (the partitions' _geometry).
   Invariant Honoured: whenever P fixes the active column, the mechanism agrees - in the frame, in the Dask meta and in
   every partition. *)
EXTENDS Integers, Sequences, FiniteSets

CONSTANTS AllCols, GeoCols, MaxOps,           \* AllCols: sequence of column names; GeoCols: the geometry ones
          FixMetaNonempty                     \* TRUE = as committed (c721e9e); FALSE = the design before it (negative control)
VARIABLES kind, cols, active, dgeom, meta, part, hist

vars == <<kind, cols, active, dgeom, meta, part, hist>>
ColSet == {cols[i] : i \in 1..Len(cols)}
Geo(S) == {c \in S : c \in GeoCols}
FirstGeo(cs) == LET idx == {i \in 1..Len(cs) : cs[i] \in GeoCols} IN
                IF idx = {} THEN "NONE" ELSE cs[CHOOSE i \in idx : \A j \in idx : i <= j]
Log(op, arg) == hist' = Append(hist, [op |-> op, arg |-> arg])
SubSeqOf(cs, S) == SelectSeq(cs, LAMBDA c : c \in S)

(* ---- pandas frame ---- *)
SetGeometry(c) == /\ kind = "geo" /\ c \in Geo(ColSet)
                  /\ active' = c /\ dgeom' = c
                  /\ Log("set_geometry", c) /\ UNCHANGED <<kind, cols, meta, part>>
(* row selection, sorting, copying, cx, pickling, head, reset_index, query ...: class FIN (pickle restores __dict__) *)
RowOp(op) == /\ kind = "geo"
             /\ Log(op, "") /\ UNCHANGED <<kind, cols, active, dgeom, meta, part>>
(* column subset df[list]: class FIN; P: kept if the active column is kept, plain frame if no geometry column is left,
   unspecified if the active column is dropped but another geometry column remains *)
Subset(S) == /\ kind = "geo" /\ S # {} /\ S \subseteq ColSet
             /\ cols' = SubSeqOf(cols, S)
             /\ IF Geo(S) = {} THEN kind' = "plain" /\ active' = "NONE" /\ dgeom' = "NONE"
                ELSE /\ kind' = "geo" /\ dgeom' = dgeom
                     /\ active' = IF active \in S THEN active ELSE "UNSPEC"
             /\ Log("subset", S) /\ UNCHANGED <<meta, part>>
Concat == /\ kind = "geo"                              \* pd.concat([df, df]): class CAT
          /\ dgeom' = IF dgeom \in ColSet THEN dgeom ELSE IF "geometry" \in ColSet THEN "geometry" ELSE "NONE"
          /\ Log("concat", "") /\ UNCHANGED <<kind, cols, active, meta, part>>
ToDask(n) == /\ kind = "geo" /\ active # "UNSPEC"
             /\ kind' = "dask" /\ meta' = dgeom /\ part' = dgeom
             /\ Log("from_pandas", n) /\ UNCHANGED <<cols, active, dgeom>>

(* ---- Dask frame ---- *)
DaskRowOp(op) == /\ kind = "dask"                      \* boolean filter, cx, persist: partitions and meta keep _geometry (FIN)
                 /\ Log(op, "") /\ UNCHANGED <<kind, cols, active, dgeom, meta, part>>
(* an operation whose meta Dask INFERS by running it on meta_nonempty(frame) - map_partitions without meta= is the plainest one.
   class INFER: the partitions keep _geometry (FIN inside each partition); the collection's meta gets whatever meta_nonempty
   carries: the active geometry (commit "fix: meta_nonempty of a GeoDataFrame keeps the active geometry"), before that commit
   the first geometry column of a frame rebuilt from plain data (CTOR) *)
DaskInferred(op) == /\ kind = "dask"
                    /\ meta' = IF FixMetaNonempty THEN meta ELSE FirstGeo(cols)
                    /\ Log(op, "") /\ UNCHANGED <<kind, cols, active, dgeom, part>>
DaskSetGeometry(c) == /\ kind = "dask" /\ c \in Geo(ColSet)
                      /\ active' = c /\ meta' = c /\ part' = c        \* map_partitions(df.set_geometry(c)): meta and partitions
                      /\ Log("dask_set_geometry", c) /\ UNCHANGED <<kind, cols, dgeom>>
DaskSubset(S) == /\ kind = "dask" /\ S \subseteq ColSet /\ active \in S
                 /\ cols' = SubSeqOf(cols, S)
                 /\ Log("dask_subset", S) /\ UNCHANGED <<kind, active, dgeom, meta, part>>
Compute == /\ kind = "dask"                            \* concatenation of the partitions: class CAT on the partitions' _geometry
           /\ kind' = "geo"
           /\ dgeom' = IF part \in ColSet THEN part ELSE IF "geometry" \in ColSet THEN "geometry" ELSE "NONE"
           /\ Log("compute", "") /\ UNCHANGED <<cols, active, meta, part>>
(* to_parquet ; read_parquet_dask(geometry = c): c = "" means the argument is omitted (first geometry column);
   commit "fix: read_parquet_dask(geometry=) sets the geometry of the partitions" makes part follow meta *)
ParquetRoundTrip(c) == /\ kind = "dask" /\ (c = "" \/ c \in Geo(ColSet))
                       /\ active' = IF c = "" THEN FirstGeo(cols) ELSE c
                       /\ meta' = IF c = "" THEN FirstGeo(cols) ELSE c
                       /\ part' = IF c = "" THEN FirstGeo(cols) ELSE c
                       /\ Log("parquet_roundtrip", c) /\ UNCHANGED <<kind, cols, dgeom>>

Init == /\ kind = "geo" /\ cols = AllCols /\ active = FirstGeo(AllCols) /\ dgeom = FirstGeo(AllCols)
        /\ meta = "NONE" /\ part = "NONE" /\ hist = <<>>
RowOps == {"iloc", "loc", "mask", "sort", "copy", "head", "cx", "pickle", "reset_index", "query", "drop_rows"}
Next == /\ Len(hist) < MaxOps /\ kind # "plain"
        /\ \/ \E c \in GeoCols : SetGeometry(c)
           \/ \E op \in RowOps : RowOp(op)
           \/ \E S \in SUBSET ColSet : Subset(S)
           \/ Concat
           \/ \E n \in {1, 3} : ToDask(n)
           \/ \E op \in {"dask_filter", "dask_cx", "dask_persist", "dask_pack"} : DaskRowOp(op)      \* dask_pack = pack_partitions: same rows, same active column
           \/ DaskInferred("dask_map_identity")
           \/ \E c \in GeoCols : DaskSetGeometry(c)
           \/ \E S \in SUBSET ColSet : DaskSubset(S)
           \/ Compute
           \/ \E c \in GeoCols \cup {""} : ParquetRoundTrip(c)

Honoured == active \notin {"UNSPEC", "NONE"} =>
               IF kind = "geo" THEN dgeom = active ELSE meta = active /\ part = active
PlainWhenNoGeometry == (kind = "plain") = (Geo(ColSet) = {})
=============================================================================
