----------------------------- MODULE MC_ActiveGeom -----------------------------
(* column layouts for ActiveGeom: two geometry columns of different kinds around an ordinary column; in the second
   layout one of them is literally named "geometry" (the only name the manager-constructor path re-adopts) *)
EXTENDS ActiveGeom
ColsA == <<"pts", "v", "lines">>
GeoA  == {"pts", "lines"}
ColsB == <<"geometry", "v", "lines">>
GeoB  == {"geometry", "lines"}
=============================================================================
