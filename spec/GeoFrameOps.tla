----------------------------- MODULE GeoFrameOps -----------------------------
(* Operators behind C04 (.cx): key resolution, the P-level meaning PCx and the mechanism DCx (mask path without
   an index; with an index: covered rows + exact test on the overlapping rows, sorted).  `els` is the element
   sequence of the object, `ix` the index state NONE or [ps, perm] (perm: the key order, 0-based row numbers). *)
EXTENDS SPMeasure, SPGeomImpl, RTree

NONE == [ps |-> 0, perm |-> <<>>]
OMIT == 999999
(* one axis of the key: <<lo, hi, scalar>>; lo / hi may be OMIT; scalar = 1 means the key component was a number v
   (then lo = hi = v: base.py turns it into slice(v, v)) *)
Resolve(key, tb) ==
    LET x0 == IF key[1][1] = OMIT THEN tb[1] ELSE key[1][1]
        y0 == IF key[2][1] = OMIT THEN tb[2] ELSE key[2][1]
        x1 == IF key[1][2] = OMIT THEN tb[3] ELSE key[1][2]
        y1 == IF key[2][2] = OMIT THEN tb[4] ELSE key[2][2]
    IN << IF Lt(x1, x0) THEN x1 ELSE x0, IF Lt(y1, y0) THEN y1 ELSE y0,
          IF Lt(x1, x0) THEN x0 ELSE x1, IF Lt(y1, y0) THEN y0 ELSE y1 >>

HasNaN(B) == \E i \in 1..4 : IsNaN(B[i])

(* ---- P: what .cx means ---- *)
RECURSIVE Select(_, _, _)
Select(n, Keep(_), i) == IF i > n THEN <<>> ELSE (IF Keep(i) THEN <<i>> ELSE <<>>) \o Select(n, Keep, i + 1)
PCx(kind, els, key) ==
    LET B == Resolve(key, TotalBounds(els))
        hit(i) == ~HasNaN(B) /\ BoxHit(kind, els[i], B) = "T"
    IN Select(Len(els), hit, 1)
Unspecified(kind, els, key) ==
    LET B == Resolve(key, TotalBounds(els)) IN
    ~HasNaN(B) /\ \E i \in 1..Len(els) : BoxHit(kind, els[i], B) = "U"

(* ---- D: what the code does ---- *)
BoundsRows(els) == [i \in 1..Len(els) |-> Bounds(els[i])]
RECURSIVE InsertSorted(_, _)
InsertSorted(s, x) == IF s = <<>> THEN <<x>> ELSE IF x <= Head(s) THEN <<x>> \o s ELSE <<Head(s)>> \o InsertSorted(Tail(s), x)
RECURSIVE SortNat(_)
SortNat(s) == IF s = <<>> THEN <<>> ELSE InsertSorted(SortNat(Tail(s)), Head(s))
DCx(kind, els, ix, key) ==
    IF ix = NONE
    THEN (* mask path: intersects_bounds over all rows, default ends from the object's total_bounds *)
         LET B == Resolve(key, TotalBounds(els))
             hit(i) == ~HasNaN(B) /\ ImplBoxHit(kind, els[i], B) = "T"
         IN Select(Len(els), hit, 1)
    ELSE (* index path: default ends from the index's total_bounds (root box); covers_overlaps; exact test on the
            overlapping rows only; np.sort(np.concatenate(...)) *)
         LET bnd == BoundsRows(els)
             B   == Resolve(key, BruteTotal(bnd, 2))
         IN IF HasNaN(B) THEN <<>>
            ELSE LET r == Query(bnd, ix.perm, ix.ps, B, TRUE)
                     hit(k) == ImplBoxHit(kind, els[k + 1], B) = "T"        \* k: 0-based row number
                 IN [j \in 1..Len(r.covers \o SelectSeq(r.overlaps, hit)) |-> SortNat(r.covers \o SelectSeq(r.overlaps, hit))[j] + 1]

=============================================================================
