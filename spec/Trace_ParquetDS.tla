---------------------------- MODULE Trace_ParquetDS ----------------------------
(* C11 / C12, code -> spec.  Records:
    {op: "roundtrip", before, after}                 RoundTripWhy(before, after)
    {op: "project",   before, want, after}           after must be Project(before, want)
    {op: "concat",    frames, after}                 after must be ConcatFrames(frames)
    {op: "bounds",    parts, recorded}               recorded[k] = total bounds of partition k (one geometry column)
    {op: "prune",     recorded, box, kept, reported} kept = positions (1-based, load order) of the partitions read back,
                                                     reported = the bounds table exposed afterwards               *)
EXTENDS ParquetDS, Json, IOUtils, TLC
TraceLog == ndJsonDeserialize(IOEnv.TRACE_FILE)
VARIABLES l, verdict
Judge(r) ==
    CASE r.op = "roundtrip" -> RoundTripWhy(r.before, r.after)
      [] r.op = "project"   -> RoundTripWhy(Project(r.before, r.want), r.after)
      [] r.op = "concat"    -> RoundTripWhy(ConcatFrames(r.frames), r.after)
      [] r.op = "bounds"    -> IF BoundsOK(r.parts, r.recorded) THEN "ok" ELSE "bounds"
      [] r.op = "prune"     -> LET k == Kept(r.recorded, r.box)
                                   strict == SelectSeq(k, LAMBDA j : DefinedOverlap(r.recorded[j], r.box)) IN
                               IF SeqSet(strict) \subseteq SeqSet(r.kept) /\ SeqSet(r.kept) \subseteq SeqSet(k) /\ NoDup(r.kept)
                                  /\ r.reported = [j \in 1..Len(r.kept) |-> r.recorded[r.kept[j]]]
                               THEN "ok" ELSE "prune"
Init == \E i \in 1..Len(TraceLog) : l = i /\ verdict = Judge(TraceLog[i])
Next == UNCHANGED <<l, verdict>>
RecordOK == verdict = "ok"
=============================================================================
