----------------------------- MODULE Trace_SJoin -----------------------------
(* C05, code -> spec: {lg: [point elements], rk, rg: [shape elements], how, pairs: [[l, r], ..]} where pairs are the
   (left position, right position) of every result row (0 = the unmatched side), recovered from unique id columns.
   Verdict: "undecided" when some point lies exactly on a polygon ring; else the pairs must be, as a bag, exactly
   SJoin!PairSet (each pair once). *)
EXTENDS SJoin, Json, IOUtils, TLC
TraceLog == ndJsonDeserialize(IOEnv.TRACE_FILE)
VARIABLES l, verdict
Judge(r) ==
    IF Undecided(r.lg, r.rk, r.rg) THEN "undecided"
    ELSE LET want == PairSet(r.how, Len(r.lg), Len(r.rg), Hit(r.lg, r.rk, r.rg)) IN
         IF NoDup(r.pairs) /\ SeqSet(r.pairs) = want THEN "ok" ELSE "mismatch"
Init == \E i \in 1..Len(TraceLog) : l = i /\ verdict = Judge(TraceLog[i])
Next == UNCHANGED <<l, verdict>>
RecordOK == verdict # "mismatch"
=============================================================================
