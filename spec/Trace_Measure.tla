---------------------------- MODULE Trace_Measure ----------------------------
(* C13 / C14 / C15, code -> spec: results of the real arrays on random (larger) inputs, judged by the
   P-level operators of SPMeasure.  Integers only (NaN / inf = SPNum!NaN / PInf / NInf); areas are logged
   as twice the area, exact lengths as the integer roots of the squared segment lengths.
     {op: "bounds",   kind, elems, rows}      rows[i] = Bounds(elems[i])
     {op: "total",    kind, elems, res}       res = TotalBounds(elems)
     {op: "area",     kind, elems, res}       res[i] = Area2(kind, elems[i])  (NaN for a missing element)
     {op: "length",   kind, elem, roots, res} roots[j]^2 = j-th squared segment length, res = sum of roots
     {op: "oriented", kind, elem, res}        res = Oriented(elem)
     {op: "boundary", kind, elem, res}        res = Boundary(elem)                                      *)
EXTENDS SPMeasure, Json, IOUtils, TLC

TraceLog == ndJsonDeserialize(IOEnv.TRACE_FILE)
VARIABLES l, verdict

Judge(r) ==
    CASE r.op = "bounds" -> IF \A i \in 1..Len(r.elems) : r.rows[i] = Bounds(r.elems[i]) THEN "ok" ELSE "mismatch"
      [] r.op = "total"  -> IF r.res = TotalBounds(r.elems) THEN "ok" ELSE "mismatch"
      [] r.op = "area"   -> IF \A i \in 1..Len(r.elems) :
                                 IF r.elems[i].null THEN r.res[i] = NaN
                                 ELSE (~RingsClosed(r.elems[i].g)) \/ r.res[i] = Area2(r.kind, r.elems[i])
                            THEN "ok" ELSE "mismatch"
      [] r.op = "length" -> LET sq == SqLens(r.kind, r.elem) IN
                            IF /\ Len(sq) = Len(r.roots)
                               /\ \A j \in 1..Len(sq) : r.roots[j] >= 0 /\ r.roots[j] * r.roots[j] = sq[j]
                               /\ SumSeq(r.roots) = r.res
                            THEN "ok" ELSE "mismatch"
      [] r.op = "oriented" -> IF r.res = Oriented(r.elem) THEN "ok" ELSE "mismatch"
      [] r.op = "boundary" -> IF r.res = Boundary(r.elem) THEN "ok" ELSE "mismatch"

Init == \E i \in 1..Len(TraceLog) : l = i /\ verdict = Judge(TraceLog[i])
Next == UNCHANGED <<l, verdict>>
RecordOK == verdict # "mismatch"
=============================================================================
