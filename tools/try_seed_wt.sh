#!/bin/sh
# tools/try_seed_wt.sh <seed-dir-name> <check id> [<check id> ...] [-- extra check args]
# Like try_seed.sh, but in a scratch worktree of /repo's HEAD (so /repo itself, and checks running against it, stay untouched):
# the checks are pointed at the worktree through VERIF_REPO. Evidence / replay files written by these runs are NOT to be committed.
name=$1; shift
wt=/tmp/seedwt-$name-$$
git -C /repo worktree add -q --detach $wt HEAD || exit 2
( cd $wt && git apply /verif/seeded/$name/patch.diff ) || { echo "patch does not apply"; git -C /repo worktree remove --force $wt; exit 2; }
for c in "$@"; do
  VERIF_REPO=$wt VERIF_EVIDENCE_DIR=/tmp/seedwt-evidence /verif/check $c --tier ${TIER:-quick} > /tmp/seedwt_${name}_$c.log 2>&1
  rc=$?
  echo "seed=$name check=$c rc=$rc $(grep -c '^VIOLATION' /tmp/seedwt_${name}_$c.log) violations"
  grep -m1 -A1 '^VIOLATION' /tmp/seedwt_${name}_$c.log | cut -c1-300
done
git -C /repo worktree remove --force $wt
