#!/bin/sh
# tools/collect_seed.sh <ID> <round-prefix e.g. wt3> <suffix e.g. c>: copy the deliverables of a finished seeding agent and drop its worktree
s=$1; wt=/tmp/$2-$s; suf=$3
mkdir -p /verif/seeded/$s-$suf && cp $wt/_seeded/demo.py $wt/_seeded/meta.json /verif/seeded/$s-$suf/ &&
(cd $wt && git diff -- spatialpandas > /verif/seeded/$s-$suf/patch.diff) && git -C /repo worktree remove --force $wt
wc -l /verif/seeded/$s-$suf/patch.diff
