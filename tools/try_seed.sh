#!/bin/sh
# tools/try_seed.sh <seed-dir-name> <check id> [<check id> ...] : apply /verif/seeded/<name>/patch.diff to /repo,
# run the quick checks, and undo the patch straight afterwards.
name=$1; shift
cd /repo || exit 2
if ! git diff --quiet; then echo "/repo has uncommitted changes"; exit 2; fi
git apply /verif/seeded/$name/patch.diff || { echo "patch does not apply"; exit 2; }
for c in "$@"; do
  /verif/check $c --tier quick > /tmp/seed_$name_$c.log 2>&1
  rc=$?
  echo "seed=$name check=$c rc=$rc $(grep -c '^VIOLATION' /tmp/seed_$name_$c.log) violations"
  grep -m2 -A1 '^VIOLATION' /tmp/seed_$name_$c.log | cut -c1-400
  tail -1 /tmp/seed_$name_$c.log | cut -c1-300
done
git -C /repo checkout -- .
git -C /repo status --short | head -3
