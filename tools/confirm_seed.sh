#!/bin/sh
# tools/confirm_seed.sh <seed-name>: in a scratch worktree of /repo's HEAD confirm that the seeded change applies, that the repository's
# test suite still passes with it (495 passed / 17 failed as the baseline), that the demonstration fails with it and passes without it.
name=$1
wt=/tmp/confirm-$name
git -C /repo worktree add -q --detach $wt HEAD || exit 2
cd $wt
res="seed=$name"
if git apply /verif/seeded/$name/patch.diff 2>/dev/null; then res="$res applies=yes"; else res="$res applies=NO"; fi
mkdir -p _seeded && cp /verif/seeded/$name/demo.py _seeded/demo.py
timeout 900 /venv/bin/python -W ignore _seeded/demo.py > /tmp/confirm-$name.with.log 2>&1; rc1=$?
suite=$(/venv/bin/python -m pytest -q -p no:cacheprovider --timeout=900 --continue-on-collection-errors --ignore=_seeded 2>&1 | tail -1 | sed 's/\x1b\[[0-9;]*m//g')
git checkout -q -- spatialpandas
timeout 900 /venv/bin/python -W ignore _seeded/demo.py > /tmp/confirm-$name.without.log 2>&1; rc0=$?
cd /
git -C /repo worktree remove --force $wt
echo "$res demo_with_change_rc=$rc1 demo_without_rc=$rc0 suite_with_change='$suite'"
