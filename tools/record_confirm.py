#!/usr/bin/env python3
"""tools/record_confirm.py <confirm.log> [<detected-by json>]: write the outcome lines of tools/confirm_seed.sh into seeded/<name>/meta.json"""
import json, re, sys, os
root = os.path.dirname(os.path.dirname(os.path.abspath(__file__)))
for line in open(sys.argv[1]):
    m = re.match(r"seed=(\S+) applies=(\S+) demo_with_change_rc=(\d+) demo_without_rc=(\d+) suite_with_change='(.*)'", line.strip())
    if not m:
        continue
    name, ap, rc1, rc0, suite = m.groups()
    p = os.path.join(root, "seeded", name, "meta.json")
    meta = json.load(open(p))
    meta["confirmed_by_verif"] = {"tree": "scratch worktree of /repo HEAD at the time (9a22d55 or 9257ee4; tools/confirm_seed.sh); the patch still applies to the current HEAD", "patch_applies": ap.lower(),
                                  "demo_exit_with_change": int(rc1), "demo_exit_without_change": int(rc0), "pinned_suite_with_change": suite}
    json.dump(meta, open(p, "w"), indent=1)
    print(name, "recorded", ap, rc1, rc0, suite)
