"""./check selftest  - anti-vacuity checks of the machinery itself (not a MANIFEST check):
 (1) negative-control models must FAIL: RTree without the NaN row filter, PackFS without the placeholder fix, the two-field memo of Caches,
     string order of partition numbers without the natural sort, the meta_nonempty design before c721e9e;
 (2) corrupted traces must be REJECTED: a flipped answer, a dropped protocol call and two swapped calls in an accepted PackFS trace;
     a flipped result bit in box / point / R-tree / pack records."""
from __future__ import annotations

import copy
import sys

from . import geom, packfs
from .packfs import Cfg
from .tlc import run_tlc, validate_trace


def expect(name, cond, detail=""):
    print(("ok   " if cond else "FAIL ") + name + (" " + str(detail) if not cond else ""))
    return 0 if cond else 1


def run(tier="quick", seed=0):
    bad = 0
    r = run_tlc("MC_RTree", cfg=dict(constants=dict(D=1, C=3, N=2, MaxPS=2, Filter=False, Mode="design", QLoM=1, QHi=3, Shard=0, NShards=1), invariants=["DesignExact"]), timeout=3000)
    bad += expect("RTree without NaN filter violates DesignExact", "DesignExact" in r.violated)
    base = dict(NIn=2, NOut=3, Mode="outside_uuid", Overwrite=False, PrevParts=0, MaxFaults=0, RetryMax=3, FixEmptyPlaceholder=False, AllowRerun=False)
    r = run_tlc("PackFS", cfg=dict(spec="Spec", constants=base, invariants=["CleanFinal", "Returns"]), workers=4, timeout=3000)
    bad += expect("PackFS without the placeholder fix violates CleanFinal / Returns", bool(r.violated))
    r = run_tlc("Caches", cfg=dict(spec="Spec", constants=dict(Threads={1, 2}, Pattern="two_field", Keys={1, 2}), invariants=["UseSeesOwnAnswer"]), timeout=3000)
    bad += expect("two-field memo violates UseSeesOwnAnswer", bool(r.violated))
    r = run_tlc("MC_ParquetDS", cfg=dict(constants=dict(MaxParts=12), invariants=["Sensitive"]), timeout=3000)
    bad += expect("string order differs from numeric order beyond ten partitions (Sensitive holds)", not r.violated)
    r = run_tlc("MC_ActiveGeom", cfg=dict(constants=dict(AllCols="<- ColsA", GeoCols="<- GeoA", MaxOps=3, FixMetaNonempty=False), invariants=["Honoured"]), timeout=3000)
    bad += expect("ActiveGeom with the pre-fix meta_nonempty violates Honoured", "Honoured" in r.violated)
    # corrupted PackFS traces
    cfg = Cfg(n=8, nin=2, nout=3, mode="inside")
    ref = packfs.run_pack(cfg)
    a = packfs.reference_assign(ref)
    prot = [j for j, e in enumerate(ref.events) if e["origin"] in packfs.PROTOCOL_ORIGINS and e["op"] != "invalidate_cache"]
    r1 = copy.copy(ref)
    r1.events = copy.deepcopy(ref.events)
    for e in r1.events:
        if e["op"] == "exists" and e["origin"] == "rm_retry":
            e["res"] = not e["res"]
            break
    r2 = copy.copy(ref)
    r2.events = [e for j, e in enumerate(ref.events) if j != prot[len(prot) // 2]]
    r3 = copy.copy(ref)
    r3.events = list(ref.events)
    same = [j for j in prot if ref.events[j]["task"] == "cat:1"]
    r3.events[same[2]], r3.events[same[3]] = r3.events[same[3]], r3.events[same[2]]
    vs = packfs.validate_runs([(ref, a, None), (r1, a, None), (r2, a, None), (r3, a, None)])
    bad += expect("recorded pack execution accepted", vs[0][0] == "accepted", vs[0])
    bad += expect("flipped answer rejected", vs[1][0] == "rejected", vs[1][0])
    bad += expect("dropped protocol call rejected", vs[2][0] == "rejected", vs[2][0])
    bad += expect("swapped calls of one task rejected", vs[3][0] == "rejected", vs[3][0])
    # flipped result bits in independent records
    el = geom.El([[[[0, 0], [4, 4]]]])
    recs = [dict(op="box", kind="line", null=False, g=el["g"], box=[1, 1, 3, 3], res=1, subtype="float64"),
            dict(op="box", kind="line", null=False, g=el["g"], box=[1, 1, 3, 3], res=0, subtype="float64"),
            dict(op="point", kind="line", null=False, g=el["g"], pt=[2, 2], res=1, subtype="float64", psub="float64"),
            dict(op="point", kind="line", null=False, g=el["g"], pt=[2, 2], res=0, subtype="float64", psub="float64")]
    v, _ = validate_trace("Trace_BoxHit", recs)
    got = [st["verdict"] for _, st in v]
    bad += expect("Trace_BoxHit verdicts ok / mismatch / ok / mismatch", got == ["ok", "mismatch", "ok", "mismatch"], got)
    # Trace_World: a driver history is accepted; the same history with one corrupted observation / an impossible step is not
    import copy as _c
    import json
    import os
    import random
    import tempfile
    import dask
    from . import c04, world
    from .tlaval import iter_dump
    from .tlc import scratch
    cats = c04.catalogues()
    kind, cat, kind2, cat2, rkind, rcat = world.CONFIGS[0]
    tmp = tempfile.mkdtemp(prefix="selftest-", dir=os.environ.get("TMPDIR") or "/var/tmp")
    with dask.config.set(scheduler="synchronous"):
        rng = random.Random(5)
        tr = [world.drive((kind, kind2), (cats[cat], cats[cat2]), rkind, cats[rcat], rng, 5, 10, tmp, f"s{k}", {}) for k in range(3)]
    t1, t2, t3 = _c.deepcopy(tr[0]), _c.deepcopy(tr[1]), _c.deepcopy(tr[2])
    for e in t1["ev"]:
        if e["op"] in ("ids", "cx", "intersects_bounds", "sindex_intersects"):
            e["val"] = sorted(set(e["val"]) ^ {1})
            break
    t2["ev"].insert(0, dict(op="compute", a=0, b=0, val=[]))
    t3["rows"][0][1] = t3["rows"][0][1] % len(cats[cat]) + 1          # another element in the first row: later observations no longer fit
    wd = scratch("selftest-world")
    path = os.path.join(wd, "t.json")
    json.dump(tr + [t1, t2], open(path, "w"))
    r = run_tlc("Trace_World", cfg=dict(spec="TSpec", constants=dict(Kind1=kind, Elems1="<- " + cat, Kind2=kind2, Elems2="<- " + cat2, RKind=rkind, RElems="<- " + rcat,
                                                                     N=8, MaxOps=99, Bias="none")), env={"TRACE_FILE": path}, workers=2, dump=True, timeout=3000)
    acc = {st["tid"] for st in iter_dump(r.dump) if st["verdict"] == "accepted"}
    bad += expect("Trace_World accepts the recorded driver histories", {1, 2, 3} <= acc, acc)
    bad += expect("Trace_World rejects a corrupted observation and an impossible step", not ({4, 5} & acc), acc)
    import shutil
    shutil.rmtree(tmp, ignore_errors=True)
    print("selftest:", "all passed" if not bad else f"{bad} FAILED")
    return 1 if bad else 0
