"""C20 - the active geometry column is honoured and survives frame operations.

model        : ActiveGeom - state machine over a frame's columns / active geometry (P) and the value of _geometry that pandas'
               propagation classes leave behind, incl. the Dask meta and partitions (D); TLC checks Honoured and
               PlainWhenNoGeometry for every operation sequence of length <= MaxOps.
spec -> code : every behaviour of the dump is replayed on real (Dask)GeoDataFrames with two geometry columns of different
               kinds; after EVERY step the abstract state is projected from the implementation and compared: result type,
               .geometry.name (or the expected error), per-partition active geometry, and a spatial operation (cx with a box
               that separates the two geometry columns; partition bounds / Hilbert packing for Dask) whose answer tells
               which column was really used."""
from __future__ import annotations

import os
import pickle
import tempfile

import numpy as np
import pandas as pd

from . import geom
from .core import Check
from .tlaval import iter_dump
from .tlc import MachineryError, run_jobs

LAYOUTS = [("ColsA", "GeoA", ["pts", "v", "lines"]), ("ColsB", "GeoB", ["geometry", "v", "lines"])]


def make_frame(cols):
    import spatialpandas as sp
    data = {}
    for c in cols:
        if c in ("pts", "geometry"):
            data[c] = geom.PointArray([[0.0, 0.0], [1.0, 1.0], [2.0, 2.0], [3.0, 3.0], [4.0, 4.0], [5.0, 5.0]])
        elif c == "lines":
            data[c] = geom.LineArray([[20.0 - 2 * i, 10.0, 21.0 - 2 * i, 11.0] for i in range(6)])
        else:
            data[c] = [1, 2, 3, 4, 5, 6]
    return sp.GeoDataFrame(data)


# a box that selects rows {2, 3} (v = 3, 4) through the point column and rows {4, 5} (v = 5, 6) through the line column
BOX_PTS = (1.5, 3.5, 1.5, 3.5)        # x0, x1, y0, y1
BOX_LINES = (9.5, 13.5, 9.5, 11.5)


def which_geometry_used(obj, cols):
    """run cx with both boxes; tell which geometry column the operation really used"""
    out = []
    a = obj.cx[BOX_PTS[0]:BOX_PTS[1], BOX_PTS[2]:BOX_PTS[3]]
    b = obj.cx[BOX_LINES[0]:BOX_LINES[1], BOX_LINES[2]:BOX_LINES[3]]
    if hasattr(a, "compute"):
        a, b = a.compute(), b.compute()
    va, vb = sorted(a["v"]) if "v" in a else sorted(a.index), sorted(b["v"]) if "v" in b else sorted(b.index)
    return va, vb


def project(obj):
    """implementation -> abstract state (kind, cols, active or error, per-partition active)"""
    import dask.dataframe as dd
    import spatialpandas as sp
    from spatialpandas.dask import DaskGeoDataFrame
    st = {}
    if isinstance(obj, DaskGeoDataFrame):
        st["kind"] = "dask"
        st["cols"] = list(obj.columns)
        try:
            st["active"] = obj.geometry.name
        except Exception as ex:  # noqa: BLE001
            st["active"] = f"ERR {type(ex).__name__}"
        def nm(df):
            try:
                return pd.Series([df.geometry.name])
            except Exception as ex:  # noqa: BLE001
                return pd.Series([f"ERR {type(ex).__name__}"])
        st["parts"] = sorted(set(obj.map_partitions(nm, meta=pd.Series([""], dtype=object)).compute().tolist()))
    elif isinstance(obj, sp.GeoDataFrame):
        st["kind"] = "geo"
        st["cols"] = list(obj.columns)
        try:
            st["active"] = obj.geometry.name
        except Exception as ex:  # noqa: BLE001
            st["active"] = f"ERR {type(ex).__name__}"
    elif isinstance(obj, dd.DataFrame):
        st["kind"] = "daskplain"
        st["cols"] = list(obj.columns)
    else:
        st["kind"] = "plain"
        st["cols"] = list(obj.columns)
    return st


LAST_PARQUET = [None, None]


def bounded_reread(want, cols):
    """read_parquet_dask(geometry=g, bounds=box): the partition filter must use the bounds of the ACTIVE column -> '' or a complaint"""
    from spatialpandas.io import read_parquet_dask
    path, g = LAST_PARQUET
    full = read_parquet_dask(path, geometry=g).compute()
    if "v" not in full.columns:
        return ""
    for box in (BOX_PTS, BOX_LINES):
        exp = sorted(full[full[want["active"]].array.intersects_bounds((box[0], box[2], box[1], box[3]))]["v"])
        got = read_parquet_dask(path, geometry=g, bounds=(box[0], box[2], box[1], box[3]))
        got = sorted(got.cx[box[0]:box[1], box[2]:box[3]].compute()["v"])
        if got != exp:
            return (f"read_parquet_dask(geometry={g!r}, bounds=box) then cx[box] selects v={got}, but the rows whose active geometry "
                    f"{want['active']!r} intersects the box are v={exp} (box x {box[0]}..{box[1]}, y {box[2]}..{box[3]})")
    return ""


def reordered_columns(want):
    """read_parquet_dask(columns=<another geometry column first>, geometry=g): the frame and each of its partitions have g active"""
    from spatialpandas.io import read_parquet_dask
    path, g = LAST_PARQUET
    geos = [c for c in want["cols"] if c != "v"]
    if len(geos) < 2:
        return ""
    for order in (list(reversed(want["cols"])), [c for c in want["cols"] if c != want["active"]] + [want["active"]]):
        fr = read_parquet_dask(path, columns=order, geometry=want["active"])
        st = project(fr)
        if st["kind"] != "dask" or st["active"] != want["active"] or st["parts"] != [want["active"]]:
            return (f"read_parquet_dask(columns={order}, geometry={want['active']!r}): frame reports {st.get('active')!r}, its partitions compute with "
                    f"{st.get('parts')}")
    return ""


def joint_compute(want, cols):
    """two frames opened on the same dataset with different geometry= and evaluated in ONE graph: each computes with its own column"""
    import dask
    from spatialpandas.io import read_parquet_dask
    path, g = LAST_PARQUET
    geos = [c for c in want["cols"] if c != "v"]              # the geometry columns the stored frame really has
    others = [c for c in geos if c != want["active"]]
    if not others:
        return ""
    a = read_parquet_dask(path, geometry=want["active"])
    b = read_parquet_dask(path, geometry=others[-1])
    for first, second, na, nb in ((a, b, want["active"], others[-1]), (b, a, others[-1], want["active"])):
        ra, rb = dask.compute(first, second)
        got = (getattr(ra, "_geometry", None), getattr(rb, "_geometry", None))
        if got != (na, nb):
            return (f"read_parquet_dask(geometry={na!r}) and read_parquet_dask(geometry={nb!r}) on the same dataset, computed together: "
                    f"active geometries {got}, expected {(na, nb)}")
        pa_ = [p.compute()._geometry for p in first.to_delayed()] + [p.compute()._geometry for p in second.to_delayed()]
        parts = dask.compute(*first.to_delayed(), *second.to_delayed())
        gotp = [p._geometry for p in parts]
        wantp = [na] * first.npartitions + [nb] * second.npartitions
        if gotp != wantp:
            return f"partitions of two frames on the same dataset computed in one graph carry active geometries {gotp}, expected {wantp}"
    return ""


def apply(obj, h, tmpdir, counter):
    import dask.dataframe as dd
    from spatialpandas.io import read_parquet_dask
    op, arg = h["op"], h["arg"]
    if op == "set_geometry":
        return obj.set_geometry(arg) if counter % 2 else obj.set_geometry(arg, inplace=True)   # in place on the SAME object (already queried)
    if op == "iloc":
        return obj.iloc[1:5]
    if op == "loc":
        return obj.loc[[0, 2, 3, 5]] if set([0, 2, 3, 5]) <= set(obj.index) else obj.loc[list(obj.index)[::2]]
    if op == "mask":
        return obj[obj["v"] > 1] if "v" in obj else obj[np.arange(len(obj)) > 0]
    if op == "sort":
        return obj.sort_values("v", ascending=False) if "v" in obj else obj.sort_index(ascending=False)
    if op == "copy":
        return obj.copy()
    if op == "head":
        return obj.head(5)
    if op == "cx":
        return obj.cx[-100:100, -100:100]
    if op == "pickle":
        return pickle.loads(pickle.dumps(obj))
    if op == "reset_index":
        return obj.reset_index(drop=True)
    if op == "query":
        return obj.query("v >= 1") if "v" in obj else obj.copy()
    if op == "drop_rows":
        return obj.drop(index=[list(obj.index)[0]])
    if op == "subset":
        keep = [c for c in obj.columns if c in set(arg)]
        return obj[keep]
    if op == "concat":
        half = len(obj) // 2
        return pd.concat([obj.iloc[:half], obj.iloc[half:]])
    if op == "from_pandas":
        return dd.from_pandas(obj, npartitions=arg)
    if op == "dask_filter":
        if "v" in obj.columns:
            return obj[obj["v"] >= 1]
        labels = obj.index.to_series()
        return obj[labels == labels]                     # a genuine row selection (boolean Dask series) on a frame without the value column
    if op == "dask_map_identity":
        return obj.map_partitions(lambda d: d)
    if op == "dask_cx":
        return obj.cx[-100:100, -100:100]
    if op == "dask_pack":
        return obj.pack_partitions(npartitions=2, p=8)
    if op == "dask_persist":
        return obj.persist()
    if op == "dask_set_geometry":
        return obj.set_geometry(arg)
    if op == "dask_subset":
        keep = [c for c in obj.columns if c in set(arg)]
        return obj[keep]
    if op == "compute":
        return obj.compute()
    if op == "parquet_roundtrip":
        path = os.path.join(tmpdir, f"ds{counter}.parq")
        obj.to_parquet(path)
        LAST_PARQUET[:] = [path, arg or None]
        return read_parquet_dask(path, geometry=arg or None)
    raise ValueError(op)


def run(tier: str, seed: int) -> int:
    import dask
    chk = Check("C20", tier, seed)
    chk.notes["rule"] = ("every behaviour (operation sequence of length <= MaxOps over 2 column layouts, 11 pandas row operations, column "
                         "subsets, concat, from_pandas(1|3 partitions), Dask filter / cx / persist / set_geometry / column subset / compute / "
                         "parquet round trip with geometry= each geometry column or omitted) of ActiveGeom is replayed; after each step the "
                         "projected abstract state is compared with the model's. non-trivial = behaviour whose final active geometry is not "
                         "the first geometry column")
    chk.assumptions = ["operations not listed in the property (merge, renaming the active column, a column subset that drops the active column "
                       "but keeps another geometry column) are outside the guarantee ('UNSPEC' in the model)"]
    quick = tier == "quick"
    jobs = []
    for colsname, geoname, _ in LAYOUTS:
        jobs.append(dict(module="MC_ActiveGeom", cfg=dict(constants=dict(AllCols="<- " + colsname, GeoCols="<- " + geoname, MaxOps=3 if quick else 4, FixMetaNonempty=True),
                                                         invariants=["Honoured", "PlainWhenNoGeometry"]), workers=4, dump=True, timeout=3000))
    results = run_jobs(jobs)
    chk.add_tlc(results)
    bad = [r for r in results if r.violated]
    before = len(chk.violations)
    tmp = tempfile.mkdtemp(prefix="c20-", dir=os.environ.get("TMPDIR") or "/var/tmp")
    counter = 0
    try:
        with dask.config.set(scheduler="synchronous"):
            for (colsname, geoname, cols), r in zip(LAYOUTS, results):
                geocols = {c for c in cols if c != "v"}
                states = [st for st in iter_dump(r.dump) if st["hist"]]
                # a behaviour is a prefix-closed history: replay only the maximal ones plus a sample, checking after every step
                hists = {}
                for st in states:
                    hists[tuple((h["op"], repr(h["arg"])) for h in st["hist"])] = st
                keys = sorted(hists)
                maximal = [k for k in keys if len(k) == max(len(x) for x in keys)] if not quick else keys
                step = 1
                if quick:
                    maximal = [k for k in keys if len(k) == 3]
                    step = 8
                else:
                    step = max(1, len(maximal) // 12000)          # 4-step behaviours: an even sample of <= 12000 per layout (all of them take hours)
                    chk.notes.setdefault("thorough_behaviours_total", []).append(len(maximal))
                # expected abstract state after each prefix = the dumped state with that history
                for idx in range(0, len(maximal), step):
                    k = maximal[(idx * 7919) % len(maximal)] if quick else maximal[idx]
                    st = hists[k]
                    obj = make_frame(cols)
                    desc = [f"GeoDataFrame columns {cols}"]
                    for j, h in enumerate(st["hist"]):
                        counter += 1
                        desc.append(f"{h['op']}({h['arg']!r})" if h["arg"] != "" else h["op"])
                        want = hists.get(k[:j + 1])
                        source, source_state = None, None
                        if h["op"] in ("dask_set_geometry", "dask_subset", "dask_filter", "dask_map_identity") or (h["op"] == "set_geometry" and counter % 2):
                            source, source_state = obj, project(obj)     # deriving a frame must leave the frame it was derived from as it was
                        try:
                            obj = apply(obj, h, tmp, counter)
                        except Exception as ex:  # noqa: BLE001
                            prev = hists.get(k[:j]) if j else None
                            if prev is not None and prev["active"] == "UNSPEC":
                                break                 # the frame has no guaranteed active geometry: spatial operations may fail
                            chk.violation(f"raises|{h['op']}|{type(ex).__name__}", " ; ".join(desc) + f"\n  raises {type(ex).__name__}: {ex}", "# " + " ; ".join(desc),
                                          ctx=dict(site=h["op"], mode="raises"))
                            break
                        chk.count()
                        got = project(obj)
                        if source is not None and h["op"] == "set_geometry" and got.get("kind") == "geo":
                            # the result of a non-inplace set_geometry is a frame of its own: changing IT in place leaves the source alone
                            others = [c for c in got["cols"] if c != "v" and c != got.get("active")]
                            if others and got.get("active") in got["cols"]:
                                keep_active = got["active"]
                                obj.set_geometry(others[0], inplace=True)
                                again0 = project(source)
                                obj.set_geometry(keep_active, inplace=True)
                                if again0 != source_state:
                                    chk.violation(f"{colsname}|set_geometry|aliased", " ; ".join(desc) + f"\n  changing the RESULT of set_geometry in place changed the frame it "
                                                  f"was derived from: {source_state} -> {again0}", "# " + " ; ".join(desc), ctx=dict(site="set_geometry", mode="aliased", layout=colsname))
                                    break
                        if source is not None and source is not obj:
                            again = project(source)
                            if again != source_state:
                                chk.violation(f"{colsname}|{h['op']}|source-changed", " ; ".join(desc) + f"\n  deriving the new frame changed the frame it was derived from: "
                                              f"{source_state} -> {again}", "# " + " ; ".join(desc), ctx=dict(site=h["op"], mode="source-changed", layout=colsname))
                                break
                        if want is None:
                            continue
                        ok, why = conforms(got, want, obj, cols)
                        if ok and h["op"] == "parquet_roundtrip" and want["kind"] == "dask" and want["active"] not in ("UNSPEC", "NONE"):
                            why = bounded_reread(want, cols) or joint_compute(want, cols) or reordered_columns(want)
                            ok = not why
                        if not ok:
                            chk.violation(f"{colsname}|{h['op']}|{why[:60]}", " ; ".join(desc) + f"\n  {why}\n  implementation state {got}; model state "
                                          f"kind={want['kind']} cols={want['cols']} active={want['active']}", "# " + " ; ".join(desc),
                                          ctx=dict(site=h["op"], mode="state", layout=colsname))
                            break
                    else:
                        if st["active"] not in ("UNSPEC", "NONE") and st["active"] != [c for c in cols if c != "v"][0]:
                            chk.nontrivial_n += 1
                    if idx == 4 * step:
                        chk.sample({"columns": cols, "history": [dict(op=h["op"], arg=h["arg"]) for h in st["hist"]],
                                    "model_final": dict(kind=st["kind"], cols=st["cols"], active=st["active"], dgeom=st["dgeom"], meta=st["meta"], part=st["part"])})
    finally:
        import shutil
        shutil.rmtree(tmp, ignore_errors=True)
    if bad and len(chk.violations) == before:
        raise MachineryError("ActiveGeom: invariant violated in the model but every behaviour replays correctly: the model mis-describes the mechanism\n"
                             + bad[0].out[bad[0].out.index("Error:"):][:1200])
    chk.exhaustive = False       # the model is explored exhaustively; the replay takes an even sample of its behaviours in both tiers
    return chk.finish()


def conforms(got, want, obj, cols):
    kind = want["kind"]
    if kind == "plain":
        if got["kind"] not in ("plain", "daskplain"):
            return False, f"a result without geometry columns must be a plain DataFrame, got kind {got['kind']}"
        return True, ""
    if got["kind"] != kind:
        return False, f"result kind {got['kind']}, expected {kind}"
    if got["cols"] != list(want["cols"]):
        return False, f"columns {got['cols']}, expected {list(want['cols'])}"
    if want["active"] in ("UNSPEC",):
        return True, ""
    if got["active"] != want["active"]:
        return False, f".geometry.name is {got['active']!r}, expected {want['active']!r}"
    if kind == "dask" and got["parts"] != [want["active"]]:
        return False, f"active geometry inside the partitions {got['parts']}, expected {[want['active']]}"
    if kind == "dask":
        # frame level and partition level must agree for every frame Dask derives with an inferred meta (sentence 1 of the property:
        # ".geometry ... and, identically, inside every partition"); the identity map_partitions is the plainest such derivation
        m = project(obj.map_partitions(lambda d: d))
        if m["kind"] == "dask" and [m["active"]] != m["parts"]:
            return False, (f"after map_partitions(identity) the Dask frame reports active geometry {m['active']!r} while its partitions "
                           f"compute with {m['parts']}")
    # which column do spatial operations really use?
    if "v" in got["cols"]:
        va, vb = which_geometry_used(obj, cols)
        rows = sorted(obj["v"].compute()) if kind == "dask" else sorted(obj["v"])
        exp_pts = [v for v in rows if v in (3, 4)]
        exp_lines = [v for v in rows if v in (5, 6)]
        if want["active"] in ("pts", "geometry"):
            if va != exp_pts or vb != []:
                return False, f"cx does not use the active column {want['active']!r}: box over the points selects v={va} (expected {exp_pts}), box over the lines selects v={vb} (expected [])"
        else:
            if vb != exp_lines or va != []:
                return False, f"cx does not use the active column {want['active']!r}: box over the lines selects v={vb} (expected {exp_lines}), box over the points selects v={va} (expected [])"
        if kind == "dask":
            tb = [float(x) for x in obj.geometry.total_bounds]
            pb = obj.partition_sindex.total_bounds if hasattr(obj, "partition_sindex") else None
            col = obj[want["active"]].compute()
            etb = [float(x) for x in col.array.total_bounds]
            if tb != etb or [float(x) for x in pb] != etb:
                return False, f"partition bounds are not those of the active column: geometry.total_bounds {tb}, partition_sindex {pb}, expected {etb}"
            # Hilbert packing uses the active column (whatever the frame's history - it may have been packed by another column before)
            if len(col) >= 1:
                try:
                    packed = obj.pack_partitions(npartitions=1, p=8).compute()
                except Exception:  # noqa: BLE001
                    packed = None                      # (Dask cannot split: nothing is claimed)
                if packed is not None:
                    want_hd = sorted(int(v) for v in col.array.hilbert_distance(total_bounds=col.array.total_bounds, p=8))
                    if sorted(int(v) for v in packed.index) != want_hd:
                        return False, (f"pack_partitions does not index by the Hilbert distances of the active column {want['active']!r}: "
                                       f"{sorted(int(v) for v in packed.index)}, expected {want_hd}")
    return True, ""
