"""C19 - transient filesystem faults never yield a silently wrong packed dataset.

design       : PackFS || Fault - a fault may strike before any filesystem call; retry wrappers restart up to RetryMax attempts; TLC
               explores every fault position (singles; pairs and repetition up to the retry limit in the larger configurations) in every
               interleaving: CleanFinal (a call that returns leaves exactly the fault-free dataset) and RerunRestores (after an aborted
               call a repeat with overwrite = True does).
fault sweep  : on the real code, EVERY top-level filesystem call position k = 1..K of the fault-free run is faulted once per kind (OSError,
               FileNotFoundError before the effect; a stale listing for ls), plus sampled pairs and faults repeated up to the retry limit.
               Each run must end `raised` or leave a dataset identical to the fault-free one (tree, rows, order, bounds, metadata row
               groups); after `raised`, the repeat with overwrite = True must restore it.  Every faulted execution (and its repeat) is
               also validated against PackFS by Trace_PackFS, so a protocol step the model lacks cannot hide."""
from __future__ import annotations

import os
import shutil

import pandas as pd
import pyarrow.parquet as pq

from . import packfs
from .core import Check
from .packfs import Cfg
from .tlc import MachineryError, run_jobs


def snapshot(root):
    """what a user can observe of the dataset under root: tree, rows per part, metadata row groups, partition bounds"""
    ds = os.path.join(root, "ds.parq")
    snap = {"tree": sorted(packfs.tree(root).items())}
    try:
        parts = sorted((f for f in os.listdir(ds) if f.startswith("part.")), key=lambda s: int(s.split(".")[1]))
        rows = []
        for f in parts:
            t = pd.read_parquet(os.path.join(ds, f))
            rows.append([(int(k), int(i)) for k, i in zip(t.index, t["id"])])
        snap["rows"] = rows
        md = pq.read_metadata(os.path.join(ds, "_metadata"))
        snap["meta_row_groups"] = [md.row_group(j).num_rows for j in range(md.num_row_groups)]
        cm = pq.read_metadata(os.path.join(ds, "_common_metadata")).metadata
        snap["bounds"] = cm.get(b"spatialpandas", b"").decode()
    except Exception as ex:  # noqa: BLE001
        snap["error"] = f"{type(ex).__name__}: {ex}"
    return snap


def clean(snap):
    s = dict(snap)
    s["tree"] = [t for t in snap["tree"] if not t[0].startswith("scratch/")]      # leftovers of an ABORTED call's temp dirs are judged separately
    return s


def run(tier: str, seed: int) -> int:
    chk = Check("C19", tier, seed, level="fault_enumeration")
    rng = chk.rng
    quick = tier == "quick"
    chk.notes["rule"] = ("model: PackFS || Fault state graphs; sweep: for each configuration every call position x {OSError, FileNotFoundError} (+ stale "
                         "listing on every ls), sampled pairs, and repetition up to the retry limit; each faulted run classified {identical, raised, "
                         "silently different} against the fault-free snapshot (tree + rows per part + _metadata row groups + bounds JSON), repeat with "
                         "overwrite=True after `raised`, and the whole execution validated by Trace_PackFS. non-trivial = faulted run in which the fault "
                         "actually fired inside the protocol (distinct position x kind x configuration)")
    chk.assumptions = ["faults strike before the effect of a call; stale answers are injected into ls only (what the property enumerates)",
                       "temporary directories of an ABORTED call with a {uuid} format may remain (the property speaks about returned calls and about the "
                       "dataset after the repeat)"]
    base = dict(NIn=2, NOut=3, Mode="inside", Overwrite=False, PrevParts=0, MaxFaults=1, RetryMax=3, FixEmptyPlaceholder=True, AllowRerun=True)
    variants = [dict(), dict(Mode="outside_uuid", NOut=2), dict(MaxFaults=2, NOut=2), dict(MaxFaults=3, NIn=1, NOut=2, Mode="outside_fixed")]
    if not quick:
        variants += [dict(Mode="outside_uuid"), dict(Mode="outside_fixed"), dict(MaxFaults=2), dict(MaxFaults=2, Mode="outside_uuid"), dict(MaxFaults=3, NIn=1, NOut=3, Mode="outside_fixed"), dict(Overwrite=True, PrevParts=3),
                     dict(MaxFaults=2, Overwrite=True, PrevParts=2, NOut=2)]
    jobs = []
    for v in variants:
        c = dict(base)
        c.update(v)
        jobs.append(dict(module="PackFS", cfg=dict(spec="Spec", constants=c, invariants=["CleanFinal", "RerunRestores", "NoSharedWrites"]), workers=4, timeout=3000,
                         heap="6g", name="packfs-f"))
    results = run_jobs(jobs, parallel=4)
    chk.add_tlc(results)
    design_bad = [r for r in results if r.violated]
    if design_bad:
        chk.notes["design_counterexample"] = design_bad[0].out[design_bad[0].out.index("Error:"):][:2000]
    configs = [Cfg(n=8, nin=2, nout=3, mode="inside", seed=seed), Cfg(n=8, nin=2, nout=6, mode="outside_uuid", seed=seed + 2, dup=2)]      # few distinct sites: interior empty partitions, renumbering moves
    if not quick:
        configs += [Cfg(n=8, nin=2, nout=6, mode="inside", seed=seed + 2), Cfg(n=8, nin=2, nout=3, mode="outside_fixed", seed=seed + 3),
                    Cfg(n=8, nin=3, nout=4, mode="outside_uuid", seed=seed + 4), Cfg(n=8, nin=2, nout=5, mode="outside_uuid", seed=seed + 1),
                    Cfg(n=9, nin=2, nout=7, mode="inside", seed=seed + 6, dup=3), Cfg(n=8, nin=2, nout=3, mode="inside", overwrite=True, prev=4, seed=seed + 5)]
    allruns = []
    for ci, cfg in enumerate(configs):
        ref = packfs.run_pack(cfg, keep=True)
        if ref.status != "returned":
            chk.violation(f"ref|{cfg.key()}", f"the fault-free run raises: {getattr(ref, 'error', '')}; {cfg}", "", ctx=dict(site="pack_partitions_to_parquet", mode="raises"))
            shutil.rmtree(ref.root, ignore_errors=True)
            continue
        want = clean(snapshot(ref.root))
        shutil.rmtree(ref.root, ignore_errors=True)
        assign = packfs.reference_assign(ref)
        K = ref.fs.calls
        ls_calls = [e["n"] for e in ref.events if e["op"] == "ls"]
        chk.notes.setdefault("calls_per_config", {})[cfg.key()] = K
        plans = []
        step = 3 if (quick and ci > 0) else 1
        for k in range(1, K + 1, step):
            plans.append({k: "OSError" if (not quick or k % 2) else "FileNotFoundError"})
            if not quick:
                plans.append({k: "FileNotFoundError"})
        if quick:
            # both fault kinds at every call of the rarer operations (rename, remove, mkdir, existence tests): error handling there is
            # kind-specific (an `exists` guard, a swallowed FileNotFoundError), and the alternation above would test one kind only
            by_site = {}
            for e in ref.events:
                by_site.setdefault((e["op"], e["origin"]), []).append(e["n"])
            for (op, _org), ns in by_site.items():
                if op in ("open", "invalidate_cache"):
                    continue
                for k in (ns if len(ns) <= 4 else ns[:2] + ns[-2:]):
                    for kindf in ("OSError", "FileNotFoundError"):
                        if {k: kindf} not in plans:
                            plans.append({k: kindf})
        for k in ls_calls:
            for variant in ("stale:first", "stale:last", "stale:ghost") if quick else ("stale:first", "stale:last", "stale:mid", "stale:all", "stale:tail2", "stale:ghost"):
                plans.append({k: variant})
        for _ in range(10 if quick else 150):                           # pairs
            a, b = sorted(rng.sample(range(1, K + 1), 2))
            plans.append({a: rng.choice(["OSError", "FileNotFoundError"]), b: rng.choice(["OSError", "FileNotFoundError"])})
        for _ in range(8 if quick else 60):                             # repetition on one wrapper up to / beyond the retry limit
            k0 = rng.randrange(1, K + 1)
            reps = rng.choice([2, 3, 3])
            origin = ref.events[[e["n"] for e in ref.events].index(k0)]["origin"] if k0 in [e["n"] for e in ref.events] else None
            state = {"left": reps}
            def pred(n, op, path, org, task, _o=origin, _s=state, _k=k0):
                if n >= _k and org == _o and _s["left"] > 0 and op != "invalidate_cache":
                    _s["left"] -= 1
                    return True
                return False
            plans.append({pred: "OSError"})
        for plan in plans:
            r = packfs.run_pack(cfg, plan=plan, keep=True)
            chk.count()
            rr = None
            got = clean(snapshot(r.root))
            desc = f"{cfg}: faults {r.fs.fired}"
            if r.fs.fired:
                chk.nontrivial_case(hash((cfg.key(), tuple((f[0], f[2]) for f in r.fs.fired))))
            if r.status == "returned":
                if got != want:
                    diff = {k: (got.get(k), want.get(k)) for k in want if got.get(k) != want.get(k)}
                    chk.violation(f"silent|{cfg.key()}|{[f[1:] for f in r.fs.fired]}", f"the call RETURNED but the dataset differs from the fault-free one: {desc}\n  differences (got, want): {diff}"[:3000],
                                  f"# {desc}", ctx=dict(site="pack_partitions_to_parquet", mode="silent-corruption", faults=[f[1] for f in r.fs.fired]))
                left = [t for t in packfs.tree(r.root) if t.startswith("scratch/")]
                if left:
                    chk.violation(f"leftover|{cfg.key()}", f"the call returned but left temporary files: {left}; {desc}", f"# {desc}", ctx=dict(site="pack_partitions_to_parquet", mode="leftover"))
            else:
                c2 = Cfg(n=cfg.n, nin=cfg.nin, nout=cfg.nout, mode=cfg.mode, overwrite=True, prev=0, p=cfg.p, compression=cfg.compression, seed=cfg.seed, dup=cfg.dup)
                rr = packfs.run_pack(c2, root=r.root, keep=True)
                got2 = clean(snapshot(r.root))
                if rr.status != "returned" or got2 != want:
                    diff = {k: (got2.get(k), want.get(k)) for k in want if got2.get(k) != want.get(k)}
                    chk.violation(f"rerun|{cfg.key()}|{[f[1:] for f in r.fs.fired]}", f"after an aborted call ({getattr(r, 'error', '')}) the repeat with overwrite=True does not restore the "
                                  f"fault-free dataset (status {rr.status} {getattr(rr, 'error', '')}): {desc}\n  differences (got, want): {diff}"[:3000],
                                  f"# {desc}", ctx=dict(site="pack_partitions_to_parquet", mode="rerun"))
            shutil.rmtree(r.root, ignore_errors=True)
            allruns.append((r, assign, rr))
    verdicts = packfs.validate_runs(allruns)
    tally = {}
    for (r, _, rr), (v, detail, res) in zip(allruns, verdicts):
        tally[v] = tally.get(v, 0) + 1
        if res is not None:
            chk.add_tlc(res)
        chk.traces += 1
        if v != "accepted":
            chk.violation(f"trace|{v}|{r.cfg.key()}|{[f[1:] for f in r.fs.fired][:2]}", f"faulted execution not accepted by Trace_PackFS ({v}): {r.cfg} faults {r.fs.fired} status {r.status}"
                          f"{' / repeat ' + rr.status if rr else ''}\n  {detail}"[:3000], f"# {r.cfg} {r.fs.fired}", ctx=dict(site="pack_partitions_to_parquet", mode=v))
    chk.notes["trace_verdicts"] = tally
    chk.notes["outcomes"] = {"returned": sum(1 for r, _, _ in allruns if r.status == "returned"), "raised": sum(1 for r, _, _ in allruns if r.status == "raised")}
    if allruns:
        r = allruns[len(allruns) // 3][0]
        chk.sample({"config": repr(r.cfg), "faults_fired": [list(map(str, f)) for f in r.fs.fired], "status": r.status})
        chk.sample({"config": repr(allruns[-1][0].cfg), "faults_fired": [list(map(str, f)) for f in allruns[-1][0].fs.fired], "status": allruns[-1][0].status})
    if design_bad and not chk.violations:
        raise MachineryError("PackFS || Fault violates its invariants but no faulted run of the real code misbehaves: the model mis-describes the protocol\n"
                             + chk.notes["design_counterexample"])
    chk.exhaustive = True
    return chk.finish()
