"""C17 - missing and empty geometries are inert.

model        : MC_Inert - the P-level operators (BoxHit, Bounds, TotalBounds, PCx) and the cx mechanism with an index of every
               page size satisfy the inert-row relation for every catalogue array, insertion set J and inert flavour
               (the R-tree, cx and sjoin mechanisms are confronted with NaN rows in MC_RTree, MC_GeoFrame, MC_SJoin).
code -> spec : the driver runs every operation on A and on A + inert rows (arbitrary float coordinates; J = first, last, a
               whole R-tree page, a whole Dask partition, all rows, random), logs both results as opaque tokens and
               Trace_Inert checks the insertion relation."""
from __future__ import annotations

import math
import os

import numpy as np
import pandas as pd

from . import geom
from .core import Check
from .tlc import run_jobs, shard_jobs, validate_trace


class Tokens:
    def __init__(self):
        self.d = {}

    def __call__(self, v):
        k = repr(v)
        if k not in self.d:
            self.d[k] = len(self.d) + 1
        return self.d[k]


def fl(v):
    v = float(v)
    return "nan" if math.isnan(v) else v


def rand_live(rng, kind):
    """an element with arbitrary (non-exact) finite float coordinates, in python nested-list form"""
    def v():
        return [rng.uniform(-10, 10), rng.uniform(-10, 10)]

    def ring(n):
        import math as m
        cx, cy = rng.uniform(-8, 8), rng.uniform(-8, 8)
        angs = sorted(rng.uniform(0, 2 * m.pi) for _ in range(n))
        pts = [[cx + rng.uniform(0.5, 2) * m.cos(a), cy + rng.uniform(0.5, 2) * m.sin(a)] for a in angs]
        return sum(pts + [pts[0]], [])
    if kind == "point":
        return v()
    if kind in ("multipoint", "line"):
        return sum([v() for _ in range(rng.choice([1, 2, 4]))], [])
    if kind == "ring":
        return ring(rng.choice([3, 5]))
    if kind == "multiline":
        return [sum([v() for _ in range(rng.choice([2, 3]))], []) for _ in range(rng.choice([1, 2]))]
    if kind == "polygon":
        return [ring(rng.choice([3, 4, 6]))]
    return [[ring(rng.choice([3, 5]))] for _ in range(rng.choice([1, 2]))]


def inert_flavours(kind):
    nan = float("nan")
    out = [("missing", None)]
    if kind == "point":
        out.append(("nan-point", [nan, nan]))
    elif kind in ("multipoint", "line", "ring"):
        out += [("empty", []), ("nan-coords", [nan, nan, nan, nan])]
    elif kind in ("multiline", "polygon"):
        out += [("empty", []), ("empty-part", [[]]), ("nan-coords", [[nan, nan, nan, nan, nan, nan, nan, nan]])]
    else:
        out += [("empty", []), ("empty-part", [[]]), ("empty-ring", [[[]]]), ("nan-coords", [[[nan, nan, nan, nan, nan, nan, nan, nan]]])]
    return out


def insert(base, J, e):
    """extended list with e at the (1-based, ascending) positions J"""
    out, it = [], iter(base)
    n = len(base) + len(J)
    for k in range(1, n + 1):
        out.append(e if k in J else next(it))
    return out


def choose_J(rng, n, mode, page):
    if mode == "first":
        return [1]
    if mode == "last":
        return [n + 1]
    if mode == "page":                                   # a whole page of `page` consecutive rows
        s = rng.randrange(0, n // page + 1) * page + 1
        return list(range(s, s + page))
    if mode == "all":
        return None
    m = rng.randrange(1, 4)
    return sorted(rng.sample(range(1, n + m + 1), m))


def run(tier: str, seed: int) -> int:
    import dask
    import dask.dataframe as dd
    import spatialpandas as sp
    chk = Check("C17", tier, seed)
    rng = chk.rng
    tok = Tokens()
    chk.notes["rule"] = ("code->spec: for 7 kinds x inert flavours (missing, empty, empty part / ring, all-NaN coordinates) x insertion sets "
                         "(first, last, whole R-tree page, whole Dask partition, all rows, random) x operations (bounds, total_bounds, length, "
                         "area, intersects_bounds, intersects, sindex queries, cx +- index of page size 1..4, sjoin, hilbert_distance, Dask cx / "
                         "bounds / total_bounds / pack_partitions), the pair (result on A, result on A + inert) is one trace record judged by "
                         "Trace_Inert; non-trivial = record whose base result is non-empty / not all False")
    chk.assumptions = ["float coordinates are arbitrary (non-exact): results are compared as opaque tokens, no geometric oracle is involved",
                       "length / area of an inert row are fixed (NaN) only for MISSING elements of list-backed line / polygon kinds"]
    quick = tier == "quick"
    jobs = []
    for kind in (["line", "polygon", "point", "multipolygon"] if quick else geom.KINDS):
        jobs += shard_jobs("MC_Inert", dict(constants=dict(Kind=kind, N=2, MaxJ=2, MaxPS=2), invariants=["InertInP"]), 8,
                           which=range(0, 3) if quick else None, timeout=3000)
    res = run_jobs(jobs)
    chk.add_tlc(res)
    for r in res:
        if r.violated:
            chk.violation("spec", "MC_Inert: the P-level operators violate the inert-row relation: " + r.out[r.out.index("Error:"):][:1200], "", ctx=dict(site="spec"))
            break
    recs = []
    meta = []
    boxes = [(-3.0, -3.0, 4.5, 2.5), (0.0, 0.0, 20.0, 20.0), (-20.0, -20.0, 20.0, 20.0), (7.7, 7.7, 9.9, 9.9)]

    def add(op, rel, base, ext, J, info, **kw):
        recs.append(dict(op=op, rel=rel, base=base, ext=ext, J=list(J), **kw))
        meta.append(info)

    rounds = 3 if quick else 40
    import shutil
    import tempfile
    from spatialpandas.io import read_parquet_dask
    tmpdir = tempfile.mkdtemp(prefix="c17-", dir=os.environ.get("TMPDIR") or "/var/tmp")
    import atexit
    atexit.register(shutil.rmtree, tmpdir, ignore_errors=True)
    with dask.config.set(scheduler="synchronous"):
        for rd in range(rounds):
            for kind in geom.KINDS:
                cls = geom.ARRAY_TYPES[kind]
                for fname, inert in inert_flavours(kind):
                    n = rng.choice([1, 3, 6, 9])
                    base = [rand_live(rng, kind) for _ in range(n)]
                    page = rng.choice([1, 2, 3, 4])
                    mode = rng.choice(["first", "last", "page", "random", "random", "all"])
                    J = choose_J(rng, n, mode, page)
                    if J is None:                        # all rows inert: compare with the EMPTY base
                        base, n = [], 0
                        J = list(range(1, rng.choice([1, 2, 5]) + 1))
                    ext = insert(base, J, inert)
                    A = cls(base, dtype="float64") if base or kind != "point" else cls(np.zeros((0, 2)), dtype="float64")
                    X = cls(ext, dtype="float64")
                    info = dict(kind=kind, flavour=fname, base=base, J=J, page=page)
                    missing = inert is None
                    chk.count()
                    # row-wise
                    nanrow = tok(("nan",) * 4)
                    add("bounds", "row", [tok(tuple(fl(v) for v in r)) for r in np.asarray(A.bounds).reshape(-1, 4)],
                        [tok(tuple(fl(v) for v in r)) for r in np.asarray(X.bounds).reshape(-1, 4)], J, info, inert=nanrow, fixed=1)
                    add("total_bounds", "agg", [tok(tuple(fl(v) for v in A.total_bounds))], [tok(tuple(fl(v) for v in X.total_bounds))], J, info)
                    fixed_measure = 1 if (missing and kind in ("line", "ring", "multiline", "polygon", "multipolygon")) else 0
                    add("length", "row", [tok(fl(v)) for v in A.length], [tok(fl(v)) for v in X.length], J, info, inert=tok("nan"), fixed=fixed_measure)
                    fixed_area = 1 if (missing and kind in ("polygon", "multipolygon")) else 0
                    add("area", "row", [tok(fl(v)) for v in A.area], [tok(fl(v)) for v in X.area], J, info, inert=tok("nan"), fixed=fixed_area)
                    for b in boxes:
                        add(f"intersects_bounds{b}", "row", [tok(bool(v)) for v in A.intersects_bounds(b)], [tok(bool(v)) for v in X.intersects_bounds(b)],
                            J, info, inert=tok(False), fixed=1)
                        add(f"intersects_bounds{b} inds=all", "row", [tok(bool(v)) for v in A.intersects_bounds(b, np.arange(len(A)))],
                            [tok(bool(v)) for v in X.intersects_bounds(b, np.arange(len(X)))], J, info, inert=tok(False), fixed=1)
                    tb = (-10.0, -10.0, 10.0, 10.0)
                    add("hilbert_distance(tb)", "row", [tok(int(v)) for v in A.hilbert_distance(total_bounds=tb, p=7)],
                        [tok(int(v)) for v in X.hilbert_distance(total_bounds=tb, p=7)], J, info, inert=0, fixed=0)
                    if n:
                        add("hilbert_distance(default)", "row", [tok(int(v)) for v in A.hilbert_distance(p=6)],
                            [tok(int(v)) for v in X.hilbert_distance(p=6)], J, info, inert=0, fixed=0)
                    if kind == "point":
                        shapes = [geom.PolygonArray([[[-5.0, -5.0, 6.0, -5.0, 6.0, 6.0, -5.0, 6.0, -5.0, -5.0]]])[0],
                                  geom.PolygonArray([[[0.0, 0.0, 2.0, 1.0, 1.0, 3.0, 0.0, 0.0]]])[0],
                                  geom.LineArray([[-10.0, -10.0, 10.0, 10.0]])[0], geom.MultiPointArray([base[0] if base else [0.0, 0.0]])[0]]
                        for si, sh in enumerate(shapes):
                            add(f"intersects(shape{si})", "row", [tok(bool(v)) for v in A.intersects(sh)], [tok(bool(v)) for v in X.intersects(sh)],
                                J, info, inert=tok(False), fixed=1)
                            # the row-selection form (inds=), here selecting every row incl. the inert ones
                            add(f"intersects(shape{si}, inds=all)", "row", [tok(bool(v)) for v in A.intersects(sh, np.arange(len(A)))],
                                [tok(bool(v)) for v in X.intersects(sh, np.arange(len(X)))], J, info, inert=tok(False), fixed=1)
                    # selections: R-tree queries and cx with / without an index
                    for b in boxes[:3]:
                        ta, tx = A.copy().build_sindex(page_size=page, p=4).sindex, X.copy().build_sindex(page_size=page, p=4).sindex
                        add(f"sindex.intersects{b}", "sel", sorted(int(v) + 1 for v in ta.intersects(b)), sorted(int(v) + 1 for v in tx.intersects(b)), J, info)
                        ca, oa = ta.covers_overlaps(b)
                        cx_, ox = tx.covers_overlaps(b)
                        add(f"sindex.covers{b}", "sel", sorted(int(v) + 1 for v in ca), sorted(int(v) + 1 for v in cx_), J, info)
                        add(f"sindex.overlaps{b}", "sel", sorted(int(v) + 1 for v in oa), sorted(int(v) + 1 for v in ox), J, info)
                        for indexed in (False, True):
                            fa = sp.GeoDataFrame({"id": list(range(1, n + 1)), "geometry": A.copy()})
                            fx = sp.GeoDataFrame({"id": list(range(1, len(ext) + 1)), "geometry": X.copy()})
                            if indexed:
                                fa.build_sindex(page_size=page)
                                fx.build_sindex(page_size=page)
                            ra = list(fa.cx[b[0]:b[2], b[1]:b[3]]["id"]) if n else []
                            rx = list(fx.cx[b[0]:b[2], b[1]:b[3]]["id"])
                            add(f"cx{b} index={indexed}", "sel", [int(v) for v in ra], [int(v) for v in rx], J, info)
                    # sjoin: inert rows on the left (points) or on the right (any kind)
                    if rd % 2 == 0:
                        if kind == "point":
                            right = sp.GeoDataFrame({"rid": [1, 2], "geometry": geom.PolygonArray([[[-5.0, -5.0, 6.0, -5.0, 6.0, 6.0, -5.0, 6.0, -5.0, -5.0]],
                                                                                                [[0.0, 0.0, 9.0, 1.0, 1.0, 9.0, 0.0, 0.0]]])})
                            for how in ("inner", "left", "right"):
                                pa = sjoin_pairs(sp, sp.GeoDataFrame({"lid": list(range(1, n + 1)), "geometry": A.copy()}), right, how) if n else \
                                    ([] if how != "right" else [[0, 1], [0, 2]])
                                px = sjoin_pairs(sp, sp.GeoDataFrame({"lid": list(range(1, len(ext) + 1)), "geometry": X.copy()}), right, how)
                                add(f"sjoin(how={how}) inert left", "pairs", pa, px, J, info, JR=[])
                        else:
                            pts = geom.PointArray([[rng.uniform(-10, 10), rng.uniform(-10, 10)] for _ in range(12)] +
                                                  [[v[0], v[1]] for v in [_first_vertex(kind, e) for e in base] if v is not None], dtype="float64")
                            left = sp.GeoDataFrame({"lid": list(range(1, len(pts) + 1)), "geometry": pts})
                            for how in ("inner", "left", "right"):
                                pa = sjoin_pairs(sp, left, sp.GeoDataFrame({"rid": list(range(1, n + 1)), "geometry": A.copy()}), how) if n else \
                                    ([] if how != "left" else [[i, 0] for i in range(1, len(pts) + 1)])
                                px = sjoin_pairs(sp, left, sp.GeoDataFrame({"rid": list(range(1, len(ext) + 1)), "geometry": X.copy()}), how)
                                add(f"sjoin(how={how}) inert right", "pairs", pa, px, [], info, JR=J)
                    # Dask: a whole partition of inert rows and inert rows inside partitions
                    if rd % 3 == 0 and n >= 2:
                        npart = rng.choice([1, 2, 3])
                        fa = sp.GeoDataFrame({"id": list(range(1, n + 1)), "geometry": A.copy()})
                        fx = sp.GeoDataFrame({"id": list(range(1, len(ext) + 1)), "geometry": X.copy()})
                        da, dx = dd.from_pandas(fa, npartitions=min(npart, n)), dd.from_pandas(fx, npartitions=min(npart + 1, len(ext)))
                        add("dask total_bounds", "agg", [tok(tuple(fl(v) for v in da.geometry.total_bounds))], [tok(tuple(fl(v) for v in dx.geometry.total_bounds))], J, info)
                        for b in boxes[:3]:
                            ra = [int(v) for v in da.cx[b[0]:b[2], b[1]:b[3]].compute()["id"]]
                            rx = [int(v) for v in dx.cx[b[0]:b[2], b[1]:b[3]].compute()["id"]]
                            add(f"dask cx{b}", "sel", ra, rx, J, info)
                        ba = [tok(tuple(fl(v) for v in r)) for r in da.geometry.bounds.compute().values]
                        bx = [tok(tuple(fl(v) for v in r)) for r in dx.geometry.bounds.compute().values]
                        add("dask bounds", "row", ba, bx, J, info, inert=nanrow, fixed=1)
                        # the same frame with a WHOLE partition of inert rows in the middle, stored and re-read (the recorded partition
                        # bounds of that partition are NaN): selections and extents of the other rows are unchanged
                        if rd % 6 == 0 and J:
                            import dask as _dask
                            inert_rows = sp.GeoDataFrame({"id": [1000 + j for j in range(len(J))], "geometry": X.take(np.array([j - 1 for j in J]))})
                            h_ = max(1, n // 2)
                            pieces = [fa.iloc[:h_], inert_rows, fa.iloc[h_:]] if n - h_ else [fa.iloc[:h_], inert_rows]
                            d3 = dd.from_delayed([_dask.delayed(p_) for p_ in pieces], meta=fa.iloc[:0])
                            pth = os.path.join(tmpdir, f"inert{len(recs)}.parq")
                            d3.to_parquet(pth)
                            back = read_parquet_dask(pth)
                            chk.count()
                            tb_a = [tok(fl(v)) for v in da.geometry.total_bounds]
                            tb_b = [tok(fl(v)) for v in back.geometry.total_bounds]
                            if tb_a != tb_b:
                                chk.violation(f"parquet-inert|total_bounds|{kind}", f"{kind}: a Dask frame with an all-inert middle partition, stored and re-read: total_bounds {tb_b}, "
                                              f"without the inert rows {tb_a}", "", ctx=dict(site="total_bounds", kind=kind, flavour=info["flavour"], dask=True, parquet=True))
                            for b in boxes[:3]:
                                ra = [int(v) for v in da.cx[b[0]:b[2], b[1]:b[3]].compute()["id"]]
                                try:
                                    rb_ = [int(v) for v in back.cx[b[0]:b[2], b[1]:b[3]].compute()["id"]]
                                    rc_ = [int(v) for v in read_parquet_dask(pth, bounds=(b[0], b[1], b[2], b[3])).cx[b[0]:b[2], b[1]:b[3]].compute()["id"]]
                                except Exception as ex:  # noqa: BLE001
                                    chk.violation(f"parquet-inert|raises|{kind}", f"{kind}: a Dask frame with an all-inert middle partition, stored and re-read: cx{b} / "
                                                  f"read_parquet_dask(bounds=) raises {type(ex).__name__}: {ex}", "",
                                                  ctx=dict(site="cx", kind=kind, flavour=info["flavour"], dask=True, parquet=True, mode="raises"))
                                    break
                                if ra != rb_ or ra != rc_:
                                    chk.violation(f"parquet-inert|cx|{kind}", f"{kind}: a Dask frame with an all-inert middle partition, stored and re-read: cx{b} selects {rb_} "
                                                  f"(with bounds= pruning {rc_}), without the inert rows {ra}; elements {[geom.to_py(kind, e) for e in base]}", "",
                                                  ctx=dict(site="cx", kind=kind, flavour=info["flavour"], dask=True, parquet=True))
                                    break
    verdicts, tres = validate_trace("Trace_Inert", recs, timeout=3000)
    chk.add_tlc(tres)
    chk.traces += len(recs)
    tally = {}
    for (rec, st), info in zip(verdicts, meta):
        v = st["verdict"]
        tally[v] = tally.get(v, 0) + 1
        if v == "ok" and rec["base"] and len(set(map(repr, rec["base"]))) > 1:
            chk.nontrivial_case(hash((rec["op"], repr(rec["base"]), repr(rec["J"]), info["kind"], info["flavour"])))
        if v == "mismatch":
            cls = geom.ARRAY_TYPES[info["kind"]].__name__
            msg = (f"{cls}: operation {rec['op']} - inserting {info['flavour']} rows at positions {rec.get('JR') or rec['J']} changed the result for the other rows "
                   f"(or selected / matched an inert row)\n  base elements {info['base']!r}\n  result on base {rec['base']}\n  result on extended {rec['ext']} (opaque tokens)")
            chk.violation(f"{info['kind']}|{rec['op'].split('(')[0]}|{info['flavour']}", msg[:3000],
                          f"# {cls} base={info['base']!r} inert={info['flavour']} J={rec['J']} op={rec['op']}\n",
                          ctx=dict(site=rec["op"].split("(")[0].split(" ")[0], kind=info["kind"], flavour=info["flavour"], dask=rec["op"].startswith("dask")))
    chk.notes["trace_verdicts"] = tally
    chk.sample({k: v for k, v in recs[3].items()})
    chk.sample({k: v for k, v in recs[len(recs) // 2].items()})
    return chk.finish()


def _first_vertex(kind, py):
    try:
        x = py
        while isinstance(x[0], list):
            x = x[0]
        return [x[0], x[1]]
    except Exception:  # noqa: BLE001
        return None


def sjoin_pairs(sp, left, right, how):
    res = sp.sjoin(left, right, how=how)
    def n(v):
        return 0 if (v is None or (isinstance(v, float) and math.isnan(v)) or v is pd.NA) else int(v)
    return [[n(l), n(r)] for l, r in zip(res["lid"], res["rid"])]
