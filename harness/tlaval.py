"""Reader for TLA+ values as printed by TLC (-dump files, counterexamples, PrintT output).

Mapping:  <<a, b>> -> list      {a, b} -> frozenset-like sorted list wrapped in TlaSet
          [k |-> v] -> dict      (k :> v @@ ...) -> dict with parsed keys (tuples for sequences)
          "s" -> str             TRUE/FALSE -> bool     123/-4 -> int     name -> ModelValue(str)
"""
from __future__ import annotations


class TlaSet(list):
    """A TLA+ set, kept as a list in TLC's print order."""


class ParseError(Exception):
    pass


def _hashable(v):
    if isinstance(v, list):
        return tuple(_hashable(x) for x in v)
    if isinstance(v, dict):
        return tuple(sorted((k, _hashable(x)) for k, x in v.items()))
    return v


class _P:
    def __init__(self, s: str):
        self.s = s
        self.i = 0
        self.n = len(s)

    def ws(self):
        s, n = self.s, self.n
        while self.i < n and s[self.i] in " \t\r\n":
            self.i += 1

    def peek(self, k=1):
        return self.s[self.i:self.i + k]

    def expect(self, tok):
        self.ws()
        if not self.s.startswith(tok, self.i):
            raise ParseError(f"expected {tok!r} at {self.i}: {self.s[self.i:self.i+40]!r}")
        self.i += len(tok)

    def value(self):
        self.ws()
        s = self.s
        c = s[self.i]
        if s.startswith("<<", self.i):
            self.i += 2
            out = []
            self.ws()
            if s.startswith(">>", self.i):
                self.i += 2
                return out
            while True:
                out.append(self.value())
                self.ws()
                if s.startswith(">>", self.i):
                    self.i += 2
                    return out
                self.expect(",")
        if c == "{":
            self.i += 1
            out = TlaSet()
            self.ws()
            if s[self.i] == "}":
                self.i += 1
                return out
            while True:
                out.append(self.value())
                self.ws()
                if s[self.i] == "}":
                    self.i += 1
                    return out
                self.expect(",")
        if c == "[":
            self.i += 1
            out = {}
            self.ws()
            if s[self.i] == "]":
                self.i += 1
                return out
            while True:
                self.ws()
                j = self.i
                while s[self.i].isalnum() or s[self.i] == "_":
                    self.i += 1
                key = s[j:self.i]
                self.expect("|->")
                out[key] = self.value()
                self.ws()
                if s[self.i] == "]":
                    self.i += 1
                    return out
                self.expect(",")
        if c == "(":
            self.i += 1
            out = {}
            while True:
                k = self.value()
                self.expect(":>")
                v = self.value()
                out[_hashable(k)] = v
                self.ws()
                if s[self.i] == ")":
                    self.i += 1
                    break
                self.expect("@@")
            # a function with domain 1..n is a sequence
            ks = list(out.keys())
            if ks and all(isinstance(k, int) for k in ks) and sorted(ks) == list(range(1, len(ks) + 1)):
                return [out[k] for k in range(1, len(ks) + 1)]
            return out
        if c == '"':
            self.i += 1
            buf = []
            while True:
                ch = s[self.i]
                if ch == "\\":
                    nxt = s[self.i + 1]
                    buf.append({"n": "\n", "t": "\t", '"': '"', "\\": "\\"}.get(nxt, nxt))
                    self.i += 2
                elif ch == '"':
                    self.i += 1
                    return "".join(buf)
                else:
                    buf.append(ch)
                    self.i += 1
        if c == "-" or c.isdigit():
            j = self.i
            self.i += 1
            while self.i < self.n and s[self.i].isdigit():
                self.i += 1
            v = int(s[j:self.i])
            if s.startswith("..", self.i):          # interval set a..b
                self.i += 2
                hi = self.value()
                return TlaSet(range(v, hi + 1))
            return v
        j = self.i
        while self.i < self.n and (s[self.i].isalnum() or s[self.i] == "_"):
            self.i += 1
        if j == self.i:
            raise ParseError(f"unexpected {s[self.i:self.i+20]!r} at {self.i}")
        name = s[j:self.i]
        if name == "TRUE":
            return True
        if name == "FALSE":
            return False
        return name  # model value


def parse_value(text: str):
    p = _P(text)
    v = p.value()
    p.ws()
    if p.i != p.n:
        raise ParseError(f"trailing text at {p.i}: {text[p.i:p.i+40]!r}")
    return v


def parse_state(text: str) -> dict:
    """Parse '/\\ v1 = val /\\ v2 = val ...' (one TLC state) into {var: value}."""
    p = _P(text)
    out = {}
    while True:
        p.ws()
        if p.i >= p.n:
            return out
        if p.s.startswith("/\\", p.i):
            p.i += 2
        p.ws()
        j = p.i
        while p.s[p.i].isalnum() or p.s[p.i] == "_":
            p.i += 1
        name = p.s[j:p.i]
        p.expect("=")
        out[name] = p.value()


def iter_dump(path: str):
    """Yield one dict per state of a TLC '-dump' file."""
    buf = []
    with open(path) as f:
        for line in f:
            if line.startswith("State "):
                if buf:
                    yield parse_state("".join(buf))
                    buf = []
            else:
                buf.append(line)
    if buf and "".join(buf).strip():
        yield parse_state("".join(buf))
