"""C15 - oriented() normalises ring direction without changing the shape.

design       : MC_Measure!DesignOriented (orient_polygons transcription = SPMeasure!Oriented) and !Theorems
               (idempotent, same rings up to reversal, signs, area = |shell| - sum |holes|) on every element.
spec -> code : PolygonArray / MultiPolygonArray.oriented() on arrays (missing anywhere incl. last, slices with
               non-zero offsets) x subtypes x exact images (incl. a 2^-30 scale: tiny areas): result elements,
               idempotence, input buffers unchanged, counts / missing mask, area, intersection results.
code -> spec : random polygons judged by Trace_Measure (op "oriented")."""
from __future__ import annotations

import math

import numpy as np

from . import c01, geom, measures as M
from .core import Check
from .tlc import MachineryError, validate_trace

FAM_QUICK = [("mrings", 3, 8, range(0, 4)), ("mpoly2", 5, 32, range(0, 6)), ("mpoly3", 5, 16, range(0, 2)),
             ("mmulti", 3, 512, range(0, 4)), ("mmulti2", 5, 8, range(0, 2)), ("holed", 5, 16, range(0, 2)), ("polygon", 3, 16, range(0, 3)),
             ("mdegshell", 5, 4, range(0, 2))]
FAM_THOROUGH = [("mrings", 3, 8, None), ("mpoly2", 5, 16, None), ("mpoly3", 5, 8, None), ("mmulti", 3, 64, range(0, 16)),
                ("mmulti2", 5, 8, None), ("holed", 5, 8, None), ("polygon", 3, 8, None), ("multipolyvalid", 3, 16, range(0, 4)), ("mdegshell", 5, 4, None)]

IMAGES = [geom.IDENT, geom.Affine(2.0 ** -30, 0.0, 2.0 ** -30, 0.0, name="tiny"), geom.Affine(2.0 ** -16, 3.0, 2.0 ** -20, -1.0, name="tiny-aniso"),
          geom.Affine(1024.0, 2.0 ** 22, 512.0, -(2.0 ** 22), name="big"), geom.Affine(1.0, -9.0, 2.0, -30.0, name="neg")]
BOXES = [(1, 1, 3, 3), (3, 3, 5, 5), (-1, -1, 1, 1), (2, 2, 7, 7), (0, 0, 8, 8), (5, 1, 7, 3)]


def replay(chk: Check, cases, tier):
    rng = chk.rng
    nb = 0
    for kind, elems, exps in M.batches(cases, rng, size=40):
        if kind not in ("polygon", "multipolygon"):
            continue
        nb += 1
        combos = [(aff, st) for k, aff in enumerate(IMAGES) for j, st in enumerate(geom.SUBTYPES)
                  if tier == "thorough" or (k * 5 + j + nb) % 5 == 0 or (aff is geom.IDENT and st == "float64")]
        for aff, subtype in combos:
            integer = np.dtype(subtype).kind == "i"
            if (integer and not aff.integral()) or (subtype == "float32" and aff.name in ("big",)):
                continue
            els = elems
            if not geom.representable(kind, els, aff, subtype):
                continue
            arr = geom.make_array(kind, els, aff, subtype)
            desc = repr([geom.to_py(kind, e, aff) if not integer else geom._to_int(geom.to_py(kind, e, aff)) for e in els])
            n = len(els)
            if n >= 3 and nb % 3 == 0:
                big, bpos = M.tiled(arr, 40001)
                chk.count(len(big))
                ob, osml = big.oriented(), arr.oriented()
                if len(ob) != len(big) or not M.same_array(np.asarray(ob.area, dtype="float64"), np.asarray(osml.area, dtype="float64")[bpos]) or \
                        not M.same_array(np.asarray(ob.isna()), np.asarray(osml.isna())[bpos]) or \
                        not M.same_array(np.asarray(ob.bounds, dtype="float64"), np.asarray(osml.bounds, dtype="float64").reshape(-1, 4)[bpos]):
                    fail(chk, kind, f"tiled to {len(big)} elements", subtype, aff, desc, "oriented() of the large array (area, missing mask, bounds) vs the tiled small one",
                         "differs", "equal", "tiled")
            if aff is geom.IDENT and subtype == "int64" and n >= 2:
                # int64 coordinates beyond 2^53 (not representable as float64): oriented() may only reverse rings, never touch a coordinate.
                # Built from Python integers; the expectation is the model's oriented element shifted by the same integer.
                B = 2 ** 53 + 1
                cls_ = type(arr)

                def shift(py):
                    if py is None:
                        return None
                    if isinstance(py, list) and py and not isinstance(py[0], list):
                        return [int(v) + B for v in py]
                    return [shift(q) for q in py]
                sel = [i for i in range(n) if exps[i] is not None and not geom.has_special(els[i])][:12]
                if sel:
                    src = [shift(geom._to_int(geom.to_py(kind, els[i]))) for i in sel] + [None]
                    big = cls_(src, dtype="int64")
                    ob = big.oriented()
                    chk.count(len(sel))
                    # (which way round a ring ends up is not judged here: at this magnitude the area's sign is beyond float64 exactness; what is
                    # judged is "each ring keeping exactly its vertices in the same cyclic order or its reverse", counts and missing elements)
                    def rings_of(py):
                        if py is None:
                            return None
                        if not py or not isinstance(py[0], list):
                            return [[(py[k], py[k + 1]) for k in range(0, len(py), 2)]]
                        return [r for q in py for r in rings_of(q)]
                    got_l, src_l = ob.data.to_pylist(), cls_(src, dtype="int64").data.to_pylist()
                    okb = len(got_l) == len(src_l) and big.data.to_pylist() == src_l
                    for g_, s_ in zip(got_l, src_l):
                        rg, rs = rings_of(g_), rings_of(s_)
                        if (rg is None) != (rs is None) or (rg is not None and (len(rg) != len(rs) or any(a != b and a != b[::-1] for a, b in zip(rg, rs)))):
                            okb = False
                    if not okb:
                        fail(chk, kind, "int64 coordinates shifted by 2^53 + 1", subtype, aff, desc, "oriented() on int64 coordinates beyond 2^53 changed vertices / counts / the input",
                             got_l[:2], src_l[:2], "bigint")
            ders = list(M.derivations(arr, n, rng))
            if n >= 2:
                # histories in which a piece of the array has ALREADY been oriented before it is combined with raw data
                k = max(1, n // 3)
                cls_ = type(arr)
                ders.append(("concat(oriented(head), raw tail)", cls_._concat_same_type([arr[:k].oriented(), arr[k:]]), list(range(n))))
                ders.append(("concat(raw tail, oriented(head))", cls_._concat_same_type([arr[k:], arr[:k].oriented()]), list(range(k, n)) + list(range(k))))
                ders.append(("concat(oriented(head).copy(), raw tail)[::-1]", cls_._concat_same_type([arr[:k].oriented().copy(), arr[k:]])[::-1], list(range(n - 1, -1, -1))))
            for name, darr, pos in ders:
                before = darr.data.to_pylist()
                o = darr.oriented()
                chk.count(len(pos))
                after = darr.data.to_pylist()
                if before != after:
                    fail(chk, kind, name, subtype, aff, desc, "oriented() modified its input", None, None, "mutates")
                got = geom.from_array(kind, o, aff)
                if type(o) is not type(darr) or len(o) != len(pos):
                    fail(chk, kind, name, subtype, aff, desc, "result type / length", [type(o).__name__, len(o)], [type(darr).__name__, len(pos)], "shape")
                    continue
                for j, p in enumerate(pos):
                    want = geom.NULL if (p < 0 or exps[p] is None) else exps[p]["oriented"]
                    if geom.canon(kind, got[j]) != geom.canon(kind, want):
                        fail(chk, kind, name, subtype, aff, desc, f"oriented element {j} (source position {p})",
                             geom.canon(kind, got[j]), geom.canon(kind, want), "result")
                        break
                oo = o.oriented()
                if oo.data.to_pylist() != o.data.to_pylist():
                    fail(chk, kind, name, subtype, aff, desc, "oriented() is not idempotent", None, None, "idempotent")
                # area: non-negative, magnitude |shell| - sum |holes| (valid polygons: holes inside their shell)
                oa = np.asarray(o.area, dtype="float64")
                for j, p in enumerate(pos):
                    if p < 0 or exps[p] is None:
                        if not math.isnan(oa[j]):
                            fail(chk, kind, name, subtype, aff, desc, f"area of missing element {j} after oriented()", float(oa[j]), math.nan, "area")
                        continue
                    x = exps[p]
                    if x["closed"] and x.get("oarea2") is not None:
                        want = x["oarea2"] * aff.sx * aff.sy / 2.0
                        if float(oa[j]) != want:
                            fail(chk, kind, name, subtype, aff, desc, f"area of element {j} after oriented()", float(oa[j]), want, "area")
                            break
                # intersection results unchanged (polygons whose holes are wound opposite to their shell, either way round)
                valid = [j for j, p in enumerate(pos) if p >= 0 and exps[p] is not None and exps[p].get("opposite")]
                if valid:
                    vi = np.array(valid)
                    for B in BOXES:
                        box = aff.box(B)
                        if not np.array_equal(darr.intersects_bounds(box, vi), o.intersects_bounds(box, vi)):
                            fail(chk, kind, name, subtype, aff, desc, f"intersects_bounds{box} changed by oriented()", None, None, "intersection")
                            break
        if nb == 1:
            i = next((i for i, x in enumerate(exps) if x is not None), 0)
            chk.sample({"kind": kind, "element": elems[i], "oriented": exps[i]["oriented"] if exps[i] else None})


def fail(chk, kind, name, subtype, aff, desc, what, got, want, mode):
    cls = geom.ARRAY_TYPES[kind].__name__
    msg = f"{cls}[{subtype}] image={aff.name} derivation={name}: {what}: got {got}, expected {want}\n  source array: {desc[:1500]}"
    replay = f"""from numpy import nan
from spatialpandas.geometry import {cls}
src = {cls}({desc}, dtype={subtype!r})
o = src.oriented()
print(o.data.to_pylist()); print(o.oriented().data.to_pylist() == o.data.to_pylist()); print(o.area)
# derivation {name}; {what}: got {got}, expected {want}
"""
    chk.violation(f"{kind}|{mode}|{name.split('[')[0]}|{subtype}|{aff.name}", msg, replay,
                  ctx=dict(site=f"{cls}.oriented", mode=mode, derivation=name.split("[")[0]))


def annotate(cases):
    """(kept as a hook) every helper fact - the area the oriented element must have (`oarea2`) and whether all holes
    are wound opposite to their shell (`opposite`) - comes from MC_Measure's expect record, i.e. from TLC"""
    return cases


def record(chk: Check, n):
    rng = chk.rng
    recs = []
    for a in range(n):
        kind = ["polygon", "multipolygon"][a % 2]
        e = c01.rand_element(rng, kind, rng.choice((6, 20, 200)))
        if e["null"]:
            continue
        if rng.random() < 0.5:                        # random windings
            for part in e["g"]:
                for r in part:
                    if rng.random() < 0.5:
                        r.reverse()
        arr = geom.make_array(kind, [geom.NULL, e], geom.IDENT, rng.choice(["float64", "int32"]))[1:]
        o = arr.oriented()
        chk.count()
        recs.append(dict(op="oriented", kind=kind, elem=dict(null=False, g=e["g"]), res=geom.from_array(kind, o)[0]))
    # integer subtypes with rings of area exactly 1/2 (primitive lattice triangles), as shells and as holes, both ways round
    def area2(r):
        return sum(r[k][0] * r[(k + 1) % len(r)][1] - r[(k + 1) % len(r)][0] * r[k][1] for k in range(len(r)))
    tri = [[[2, 2], [3, 2], [2, 3], [2, 2]], [[14, 2], [15, 3], [16, 5], [14, 2]], [[5, 5], [5, 6], [6, 6], [5, 5]]]
    shell = [[0, 0], [20, 0], [20, 20], [0, 20], [0, 0]]
    for st in ("int8", "int16", "int32", "int64"):
        rows = []
        for t in tri:
            for rv in (False, True):
                t2 = t[::-1] if rv else t
                rows.append([[t2]])                              # the triangle as a shell
                rows.append([[shell, t2]])                       # ... and as a hole
        src = [[[[c for v in r for c in v] for r in part] for part in row][0] for row in rows]
        arr = geom.PolygonArray(src + [None], dtype=st)
        o = arr.oriented().data.to_pylist()
        chk.count(len(rows))
        for row, got in zip(rows, o):
            rings = row[0]
            for ri, (r, g) in enumerate(zip(rings, got)):
                gp = [[g[k], g[k + 1]] for k in range(0, len(g), 2)]
                wantccw = ri == 0
                if (gp != r and gp != r[::-1]) or (area2(gp[:-1]) > 0) != wantccw:
                    chk.violation(f"halfarea|{st}", f"PolygonArray[{st}].oriented(): ring {ri} of {rings} comes out as {gp} - a ring of area 1/2 must run "
                                  f"{'counter-clockwise (shell)' if wantccw else 'clockwise (hole)'}", "", ctx=dict(site="oriented", mode="half-area", subtype=st))
                    break
    # polygons with MANY holes (perforated plates: 300 and 520 unit holes in a 60 x 60 shell, windings mixed) - ring counters of any width
    for nh, kind in ((300, "polygon"), (520, "multipolygon")):
        shell = [[0, 0], [0, 60], [60, 60], [60, 0], [0, 0]]            # clockwise shell: must be reversed
        holes = []
        for k in range(nh):
            x, y = 2 * (k % 29) + 1, 2 * (k // 29) + 1
            h = [[x, y], [x + 1, y], [x + 1, y + 1], [x, y + 1], [x, y]]
            holes.append(h if k % 3 else h[::-1])
        g = [[shell] + holes]
        e = geom.El(g if kind == "polygon" else g + [[[[70, 0], [72, 0], [72, 2], [70, 0]]]])
        arr = geom.make_array(kind, [geom.NULL, e], geom.IDENT, "float64")[1:]
        o = arr.oriented()
        chk.count()
        recs.append(dict(op="oriented", kind=kind, elem=dict(null=False, g=e["g"]), res=geom.from_array(kind, o)[0]))
    return recs


def run(tier: str, seed: int) -> int:
    chk = Check("C15", tier, seed)
    chk.notes["rule"] = ("spec->code: polygon / multipolygon elements of MC_Measure's families (all winding patterns, zero-area and <3-vertex "
                         "rings, empty) in arrays with missing elements x subtype x exact image (2^-30 .. 2^10) x 11 derivations; "
                         "code->spec: random polygons with random windings judged by Trace_Measure. non-trivial = element with at least "
                         "one ring that oriented() must reverse")
    chk.assumptions = ["'does not change any intersection result' is judged for polygons whose holes are wound opposite to their shell "
                       "(either way round) - for same-winding holes the intersection semantics is undefined by C01/C02",
                       "expected area after oriented() = SPMeasure!Area2(Oriented(e)) computed by TLC (MC_Measure!Theorems proves it equals |shell| - sum|holes|)"]
    fams = FAM_THOROUGH if tier == "thorough" else FAM_QUICK
    data, bad = M.generate(chk, fams, invariants=["DesignOriented", "Theorems", "DesignArea"])
    before = len(chk.violations) + sum(chk.known_hits.values())
    for fam, cases in data.items():
        cases = annotate(cases)
        chk.nontrivial_n += sum(1 for k, e, x in cases if not e["null"] and k in ("polygon", "multipolygon") and x["oriented"]["g"] != e["g"])
        replay(chk, cases, tier)
    if bad and len(chk.violations) + sum(chk.known_hits.values()) == before:
        raise MachineryError(f"MC_Measure design invariants violated but the code agrees with the oracle: {bad[0]}")
    chk.exhaustive = True
    recs = record(chk, 150 if tier == "quick" else 3000)
    verdicts, tres = validate_trace("Trace_Measure", recs)
    chk.add_tlc(tres)
    chk.traces += len(recs)
    tally = {}
    for rec, st in verdicts:
        tally[st["verdict"]] = tally.get(st["verdict"], 0) + 1
        if st["verdict"] == "ok":
            chk.nontrivial_case(hash(repr(rec)))
        else:
            chk.violation("trace|" + repr(rec)[:100], f"Trace_Measure rejects oriented() of {rec['elem']!r}: got {rec['res']!r}",
                          f"# {rec!r}\n", ctx=dict(site=f"{rec['kind']}.oriented", mode="trace"))
    chk.notes["trace_verdicts"] = tally
    return chk.finish()
