"""C03 - R-tree queries return exactly the intersecting / covered boxes.

design       : MC_RTree (Mode "design") - TLC checks the transcription of build + traversal + leaf masks against
               brute force for every row sequence, page size, key permutation and query of the small scope.
spec -> code : MC_RTree (Mode "gen") - every row sequence with the brute-force answers for every query, replayed on
               HilbertRtree for several p / page sizes / affine images, and on GeometryArray.sindex.
code -> spec : random larger indexes; each query is logged with the code's private state (keys, node boxes) and
               results, Trace_RTree judges the answer (brute force) and the conformance to the modelled design."""
from __future__ import annotations

import math

import numpy as np

from . import geom
from .core import Check
from .tlaval import iter_dump, parse_value
from .tlc import MachineryError, run_jobs, shard_jobs, validate_trace

NAN = geom.NAN


def consts(D, C, N, MaxPS, mode, qlo=-1, qhi=None):
    return dict(D=D, C=C, N=N, MaxPS=MaxPS, Filter=True, Mode=mode, QLoM=-qlo, QHi=C if qhi is None else qhi)


DESIGN_QUICK = [consts(1, 3, 3, 4, "design"), consts(2, 2, 2, 3, "design"), consts(3, 1, 2, 3, "design", -1, 1)]
DESIGN_THOROUGH = [consts(1, 3, 4, 5, "design"), consts(2, 2, 3, 4, "design"), consts(3, 2, 2, 3, "design", 0, 1),
                   consts(3, 1, 3, 4, "design", -1, 1)]
GEN_QUICK = [consts(1, 3, 4, 1, "gen"), consts(2, 2, 2, 1, "gen"), consts(3, 1, 3, 1, "gen", -1, 1)]
GEN_THOROUGH = [consts(1, 3, 5, 1, "gen"), consts(1, 4, 3, 1, "gen"), consts(2, 2, 3, 1, "gen"), consts(3, 2, 2, 1, "gen", 0, 1)]


def tofloat(v):
    return math.nan if v == NAN else float(v)


def build_bounds(bs, d, aff=None):
    a = np.array([[tofloat(c) for c in b] for b in bs], dtype="float64").reshape(len(bs), 2 * d)
    if aff is not None:
        s, t = aff
        a = a * s + t
    return a


def replay_gen(chk: Check, cfg, states, qseq, tier):
    from spatialpandas.spatialindex import HilbertRtree
    d = cfg["D"]
    Q = np.array(qseq, dtype="float64")
    page_sizes = [1, 2, 3, 4, 5, 7, 512]
    ps_n = 3 if tier == "quick" else len(page_sizes)
    p_all = [1, 2, 5, 10, 31]
    images = [None, (0.25, -3.0), (1024.0, 2.0 ** 20)]
    for si, st in enumerate(states):
        bs = st["bs"]
        ans = st["expect"]["ans"]
        total = st["expect"]["total"]
        n = len(bs)
        if n and any(a[0] and a[0] != a[1] and set(a[0]) != set(range(n)) for a in ans):
            chk.nontrivial_n += 1
        for k in range(ps_n):
            ps = page_sizes[(si + k) % len(page_sizes)] if tier == "quick" else page_sizes[k]
            p = p_all[(si + k) % len(p_all)]
            aff = images[(si + k) % len(images)]
            bounds = build_bounds(bs, d, aff)
            tree = HilbertRtree(bounds, p=p, page_size=ps)
            tb = np.array(tree.total_bounds, dtype="float64")
            want_tb = build_bounds([total], d, aff)[0]
            if not np.array_equal(tb, want_tb, equal_nan=True):
                report(chk, bs, d, ps, p, aff, None, "total_bounds", tb.tolist(), want_tb.tolist())
            Qa = Q if aff is None else Q * aff[0] + aff[1]
            held = []               # history: answers are kept while later queries run on the same index, and looked at again afterwards
            for qi in range(len(qseq)):
                q = tuple(Qa[qi])
                raw = tree.intersects(q)
                got = sorted(int(x) for x in raw)
                if qi % 4 == 0:
                    held.append((qi, raw, got))
                chk.count()
                want_i, want_c = sorted(ans[qi][0]), sorted(ans[qi][1])
                if got != want_i:
                    report(chk, bs, d, ps, p, aff, qseq[qi], "intersects", got, want_i)
                cov_raw, ov_raw = tree.covers_overlaps(q)
                cov, ov = sorted(int(x) for x in cov_raw), sorted(int(x) for x in ov_raw)
                if qi % 4 == 1:
                    held.append((qi, cov_raw, cov))
                    held.append((qi, ov_raw, ov))
                want_o = sorted(set(want_i) - set(want_c))
                if cov != want_c or ov != want_o:
                    report(chk, bs, d, ps, p, aff, qseq[qi], "covers_overlaps", [cov, ov], [want_c, want_o])
            # history: the caller reuses its bounds buffer after the index was built - the index must not alias it
            if n and not np.isnan(bounds).any():
                first = [(qi, sorted(int(x) for x in tree.intersects(tuple(Qa[qi])))) for qi in range(0, len(qseq), 5)]
                bounds[...] = 987654.0
                for qi, got0 in first:
                    again = sorted(int(x) for x in tree.intersects(tuple(Qa[qi])))
                    if again != got0:
                        report(chk, bs, d, ps, p, aff, qseq[qi], "intersects after the caller overwrote the array the index was built from", again, got0)
                        break
                tb2 = np.array(tree.total_bounds, dtype="float64")
                if not np.array_equal(tb2, tb, equal_nan=True):
                    report(chk, bs, d, ps, p, aff, None, "total_bounds after the caller overwrote the array the index was built from", tb2.tolist(), tb.tolist())
            for qi, raw, got in held:
                if sorted(int(x) for x in raw) != got:
                    report(chk, bs, d, ps, p, aff, qseq[qi], "intersects / covers_overlaps (the returned array, looked at again after later queries on the same index)",
                           sorted(int(x) for x in raw), got)
                    break
        # GeometryArray.sindex on an array whose element bounds are the boxes (2-d only)
        if d == 2 and n and si % 3 == 0:
            elems = []
            for b in bs:
                if NAN in b:
                    elems.append(geom.NULL if (si + len(elems)) % 2 else geom.El([[[]]]))
                else:
                    elems.append(geom.El([[[[b[0], b[1]], [b[2], b[3]]]]]))
            arr = geom.make_array("multipoint", elems)
            arr.build_sindex(page_size=1 + si % 3, p=3)
            for qi in range(0, len(qseq), 3):
                got = sorted(int(x) for x in arr.sindex.intersects(tuple(Q[qi])))
                chk.count()
                if got != sorted(ans[qi][0]):
                    report(chk, bs, d, 1 + si % 3, 3, None, qseq[qi], "MultiPointArray.sindex.intersects", got, sorted(ans[qi][0]))


def report(chk, bs, d, ps, p, aff, q, what, got, want):
    bounds = build_bounds(bs, d, aff)
    qq = None if q is None else (tuple(np.array(q, dtype="float64") * (aff[0] if aff else 1) + (aff[1] if aff else 0)))
    msg = f"HilbertRtree(d={d}, p={p}, page_size={ps}) {what}: boxes {bounds.tolist()} query {qq} -> got {got}, brute force {want}"
    replay = f"""import numpy as np
from numpy import nan
from spatialpandas.spatialindex import HilbertRtree
bounds = np.array({bounds.tolist()!r}, dtype='float64').reshape({len(bs)}, {2 * d})
tree = HilbertRtree(bounds, p={p}, page_size={ps})
print('total_bounds', tree.total_bounds)
q = {qq!r}
if q is not None:
    print('intersects', sorted(tree.intersects(q)))
    print('covers_overlaps', [sorted(x) for x in tree.covers_overlaps(q)])
print('expected ({what}):', {want!r})
"""
    has_nan = any(NAN in b for b in bs)
    chk.violation(f"{what}|{bs!r}|{ps}|{q!r}", msg, replay,
                  ctx=dict(site="HilbertRtree." + what.split(".")[-1], nan_rows=has_nan))


def rec_value(x):
    x = float(x)
    if math.isnan(x):
        return NAN
    assert x == int(x), x
    return int(x)


def record_traces(chk: Check, n_trees, tier):
    from spatialpandas.spatialindex import HilbertRtree
    rng = chk.rng
    recs = []
    for t in range(n_trees):
        d = rng.choice([1, 2, 2, 3])
        n = rng.choice([0, 1, 2, 3, 5, 8, 13, 21, 40] if tier == "quick" else [0, 1, 2, 5, 13, 40, 90, 150])
        lim = rng.choice([1, 2, 4, 10, 100])
        ps = rng.choice([1, 2, 3, 7, max(1, n - 1), max(1, n), n + 1, 512])
        p = rng.choice([1, 2, 5, 10, 20, 31])
        rows = []
        nanp = rng.choice([0, 0, 0.1, 0.5])
        for _ in range(n):
            if rng.random() < nanp:
                rows.append([NAN] * (2 * d))
            else:
                lo = [rng.randrange(-lim, lim + 1) for _ in range(d)]
                hi = [x + rng.choice([0, 0, 1, 2, lim]) for x in lo]
                rows.append(lo + hi)
        if n and rng.random() < 0.15:
            rows = [rows[0]] * n                                   # all rows identical
        bounds = build_bounds(rows, d)
        tree = HilbertRtree(bounds, p=p, page_size=ps)
        keys = [int(k) for k in tree._keys]
        bt = [[rec_value(x) for x in row] for row in np.asarray(tree._bounds_tree)]
        total = [rec_value(x) for x in tree.total_bounds]
        for _ in range(4 if tier == "quick" else 8):
            lo = [rng.randrange(-lim - 1, lim + 2) for _ in range(d)]
            hi = [x + rng.choice([0, 1, 2, lim, 3 * lim]) for x in lo]
            if rows and rng.random() < 0.3:                        # query edges equal to a box's edges
                b = rng.choice(rows)
                if NAN not in b:
                    lo, hi = b[:d], b[d:]
            q = lo + hi
            r_i = [int(x) for x in tree.intersects(tuple(float(x) for x in q))]
            cov, ov = tree.covers_overlaps(tuple(float(x) for x in q))
            chk.count()
            recs.append(dict(bs=rows, ps=ps, keys=keys, tree=bt, q=q, intersects=r_i,
                             covers=[int(x) for x in cov], overlaps=[int(x) for x in ov], total=total, p=p))
    return recs


def run(tier: str, seed: int) -> int:
    chk = Check("C03", tier, seed)
    chk.notes["rule"] = ("design: MC_RTree states (rows x page size x key permutation), each checked for every query; "
                         "spec->code: every row sequence of the gen scope x page sizes x p x affine images x every query on "
                         "HilbertRtree (+ GeometryArray.sindex in 2-d); code->spec: random trees (d in 1..3, NaN rows, duplicates, "
                         "ragged pages), every query judged by Trace_RTree incl. conformance of keys / node boxes / result order "
                         "to the modelled design. non-trivial = row sequence for which some query has a non-empty answer that is "
                         "neither everything nor all-covered (gen), or a judged trace record with a non-empty answer")
    chk.assumptions = ["key order is modelled as an arbitrary permutation (independence of p and of argsort tie breaking)",
                       "queries have min <= max on every axis (cx and sjoin normalise them)"]
    design = DESIGN_THOROUGH if tier == "thorough" else DESIGN_QUICK
    gens = GEN_THOROUGH if tier == "thorough" else GEN_QUICK
    jobs = []
    for c in design:
        jobs += shard_jobs("MC_RTree", dict(constants=c, invariants=["DesignExact"]), 16, timeout=3000)
    ngen = []
    for c in gens:
        js = shard_jobs("MC_RTree", dict(constants=c), 4, dump=True, timeout=3000)
        ngen.append(len(js))
        jobs += js
    results = run_jobs(jobs)
    chk.add_tlc(results)
    nd = 16 * len(design)
    bad = [r for r in results[:nd] if r.violated]
    if bad:
        # a design counterexample is only a verdict about the code if it reproduces there: the replay below
        # covers the same row sequences; remember it and decide afterwards
        chk.notes["design_counterexample"] = bad[0].out[bad[0].out.index("Error:"):][:800]
    before = len(chk.violations) + sum(chk.known_hits.values())
    off = nd
    for c, k in zip(gens, ngen):
        rs = results[off:off + k]
        off += k
        qseq = None
        for chunk in rs[0].printed():
            if chunk.replace(" ", "").startswith('<<"QSEQ"'):
                qseq = parse_value(chunk)[1]
        states = [st for r in rs for st in iter_dump(r.dump)]
        if states:
            chk.sample({"dims": c["D"], "rows": states[len(states) // 2]["bs"], "query": qseq[len(qseq) // 2],
                        "expect[intersects, covers]": states[len(states) // 2]["expect"]["ans"][len(qseq) // 2]})
        replay_gen(chk, c, states, qseq, tier)
    if bad and len(chk.violations) + sum(chk.known_hits.values()) == before:
        raise MachineryError("MC_RTree: DesignExact violated but the code answers every generated case correctly: "
                             "RTree.tla mis-describes the code\n" + chk.notes["design_counterexample"])
    chk.exhaustive = True
    recs = record_traces(chk, 250 if tier == "quick" else 2500, tier)
    verdicts, tres = validate_trace("Trace_RTree", recs)
    chk.add_tlc(tres)
    chk.traces += len(recs)
    tally = {}
    departs = None
    for rec, st in verdicts:
        v = st["verdict"]
        tally[v] = tally.get(v, 0) + 1
        if v == "ok" and rec["intersects"]:
            chk.nontrivial_case(hash((repr(rec["bs"]), tuple(rec["q"]), rec["ps"])))
        if v == "mismatch":
            d = len(rec["q"]) // 2
            report(chk, rec["bs"], d, rec["ps"], rec["p"], None, rec["q"], "intersects/covers_overlaps(trace)",
                   [rec["intersects"], rec["covers"], rec["overlaps"]], "brute force (Trace_RTree!PropertyOK)")
        if v == "departs" and departs is None:
            departs = rec
    chk.notes["trace_verdicts"] = tally
    if departs is not None:
        # the answers are right but the private state is not what RTree.tla says: the model is out of date.
        # Not a verdict about the property; reported so that the specification is corrected.
        chk.notes["design_departure_example"] = {k: departs[k] for k in ("bs", "ps", "keys", "q")}
        print("NOTE C03: implementation departs from the modelled R-tree design on", tally.get("departs"), "trace records "
              "(answers are correct; RTree.tla needs updating)")
    return chk.finish()
