"""Python mirror of the abstract values of the specification (DESIGN §3.1) and their concrete
spatialpandas counterparts: elements, arrays, exact affine images, coordinate subtypes."""
from __future__ import annotations

import math
import os

import numpy as np

import spatialpandas  # noqa: F401
from spatialpandas.geometry import (
    LineArray, MultiLineArray, MultiPointArray, MultiPolygonArray, PointArray, PolygonArray, RingArray,
)

REPO = os.environ.get("VERIF_REPO", "/repo")
assert spatialpandas.__file__.startswith(REPO + "/"), spatialpandas.__file__

NAN = 777777777
PINF = 555555555
NINF = -555555555

ARRAY_TYPES = {
    "point": PointArray, "multipoint": MultiPointArray, "line": LineArray, "ring": RingArray,
    "multiline": MultiLineArray, "polygon": PolygonArray, "multipolygon": MultiPolygonArray,
}
KINDS = list(ARRAY_TYPES)
SUBTYPES = ["float64", "float32", "int64", "int32", "int16"]
NULL = {"null": True, "g": []}


def El(g):
    return {"null": False, "g": g}


class Affine:
    """x -> sx * x + tx, y -> sy * y + ty with sx, sy > 0 powers of two: preserves every order type."""

    def __init__(self, sx=1.0, tx=0.0, sy=None, ty=None, name=None):
        self.sx, self.tx = sx, tx
        self.sy = sx if sy is None else sy
        self.ty = tx if ty is None else ty
        self.name = name or f"x*{self.sx}+{self.tx},y*{self.sy}+{self.ty}"

    def x(self, v):
        return _special(v) if v in (NAN, PINF, NINF) else self.sx * v + self.tx

    def y(self, v):
        return _special(v) if v in (NAN, PINF, NINF) else self.sy * v + self.ty

    def box(self, b):
        return (self.x(b[0]), self.y(b[1]), self.x(b[2]), self.y(b[3]))

    def integral(self):
        return all(float(a).is_integer() for a in (self.sx, self.tx, self.sy, self.ty))

    def __repr__(self):
        return f"Affine({self.sx}, {self.tx}, {self.sy}, {self.ty})"


def _special(v):
    return {NAN: math.nan, PINF: math.inf, NINF: -math.inf}[v]


IDENT = Affine(1.0, 0.0, name="identity")
# exact images: dyadic fractions; large magnitude near 2^24 (float32 integer limit); negative offsets;
# anisotropic scaling
IMAGES = [
    IDENT,
    Affine(0.125, -0.5, 0.25, 3.0, name="dyadic"),
    Affine(1024.0, 2.0 ** 24 - 2.0 ** 14, 512.0, -(2.0 ** 24 - 2.0 ** 14), name="big"),
    Affine(2.0, -7.0, 1.0, -3.0, name="neg"),
]


def has_special(e):
    if e["null"]:
        return False
    return any(c in (NAN, PINF, NINF) for part in e["g"] for ring in part for v in ring for c in v)


def flat(ring, aff):
    out = []
    for v in ring:
        out.append(aff.x(v[0]))
        out.append(aff.y(v[1]))
    return out


def to_py(kind, e, aff=IDENT):
    """Abstract element -> the nested-list form the array constructors accept (None for missing)."""
    if e["null"]:
        return None
    g = e["g"]
    if kind == "point":
        return flat(g[0][0], aff)
    if kind in ("multipoint", "line", "ring"):
        return flat(g[0][0], aff) if g and g[0] else []
    if kind in ("multiline", "polygon"):
        return [flat(r, aff) for r in g[0]] if g else []
    if kind == "multipolygon":
        return [[flat(r, aff) for r in part] for part in g]
    raise ValueError(kind)


def representable(kind, elems, aff, subtype):
    """Can every coordinate of every element be stored exactly in `subtype` under `aff`?"""
    dt = np.dtype(subtype)
    for e in elems:
        if e["null"]:
            continue
        for part in e["g"]:
            for ring in part:
                for v in ring:
                    for c, f in ((v[0], aff.x), (v[1], aff.y)):
                        val = f(c)
                        if dt.kind == "i":
                            if not math.isfinite(val) or not float(val).is_integer():
                                return False
                            info = np.iinfo(dt)
                            if val < info.min or val > info.max:
                                return False
                        elif dt == np.float32:
                            if math.isfinite(val) and float(np.float32(val)) != val:
                                return False
    return True


def make_array(kind, elems, aff=IDENT, subtype="float64"):
    """Build the spatialpandas array of `kind` holding the abstract elements."""
    cls = ARRAY_TYPES[kind]
    data = [to_py(kind, e, aff) for e in elems]
    dt = np.dtype(subtype)
    if dt.kind == "i":
        data = _to_int(data)
    if kind == "point":
        return cls(data, dtype=subtype) if len(data) else cls(np.zeros((0, 2)), dtype=subtype)
    return cls(data, dtype=subtype)


def _to_int(x):
    if x is None:
        return None
    if isinstance(x, list):
        return [_to_int(v) for v in x]
    return int(x)


def from_array(kind, arr, aff=IDENT):
    """Concrete array -> abstract elements in *model* coordinates (inverse of make_array), through the
    public element accessor arr[i]."""
    out = []
    for i in range(len(arr)):
        out.append(from_scalar(kind, arr[i], aff))
    return out


def _inv(aff, x, y):
    def one(v, s, t):
        v = float(v)
        if math.isnan(v):
            return NAN
        if math.isinf(v):
            return PINF if v > 0 else NINF
        m = (v - t) / s
        r = round(m)
        return int(r) if abs(m - r) < 1e-9 else m          # (non-dyadic images: the quotient is an integer up to rounding)
    return [one(x, aff.sx, aff.tx), one(y, aff.sy, aff.ty)]


def _ring(fl, aff):
    fl = list(fl)
    return [_inv(aff, fl[i], fl[i + 1]) for i in range(0, len(fl), 2)]


def from_scalar(kind, s, aff=IDENT):
    if s is None:
        return {"null": True, "g": []}
    if kind == "point":
        fv = s.flat_values
        return El([[[_inv(aff, fv[0], fv[1])]]])
    py = s.data.as_py()
    if kind in ("multipoint", "line", "ring"):
        return El([[_ring(py, aff)]])
    if kind in ("multiline", "polygon"):
        return El([[_ring(r, aff) for r in py]])
    return El([[_ring(r, aff) for r in part] for part in py])


def canon(kind, e):
    """Canonical form for comparing elements: the nested list of vertices the element denotes."""
    if e["null"]:
        return None
    g = e["g"]
    if kind in ("point", "multipoint", "line", "ring"):
        return [tuple(v) for v in (g[0][0] if g and g[0] else [])]
    if kind in ("multiline", "polygon"):
        return [[tuple(v) for v in r] for r in (g[0] if g else [])]
    return [[[tuple(v) for v in r] for r in part] for part in g]


def box_to_tuple(b):
    return (float(b[0]), float(b[1]), float(b[2]), float(b[3]))


def corner_orders(b):
    x0, y0, x1, y1 = b
    return [(x0, y0, x1, y1), (x1, y0, x0, y1), (x0, y1, x1, y0), (x1, y1, x0, y0)]
