"""C07 - the Hilbert curve mapping is a locality-preserving bijection.

design       : MC_Hilbert - finite lemma L1-L4 (=> all p by the induction of DESIGN §4.2), transducer = textbook
               recursion, Skilling transcription = transducer (n = 2) and bijection / unit steps / refinement of the
               transcription for n = 1, 3.
code -> spec : the code's tables and sampled cells (p up to 31), logged as bit / digit sequences, validated by
               Trace_Hilbert (n = 2: equality with the classical curve; n = 1, 3: the property itself on tables).
direct       : scalar = vectorised, round trips both ways (agreement of the four entry points)."""
from __future__ import annotations

import numpy as np

from .core import Check
from .tlc import run_jobs, shard_jobs, validate_trace


def bits(v, p):
    return [(int(v) >> (p - 1 - i)) & 1 for i in range(p)]


def digits(d, p, n):
    mask = (1 << n) - 1
    return [(int(d) >> (n * (p - 1 - i))) & mask for i in range(p)]


def run(tier: str, seed: int) -> int:
    from spatialpandas.spatialindex import hilbert_curve as hc
    chk = Check("C07", tier, seed)
    rng = chk.rng
    chk.notes["rule"] = ("model: MC_Hilbert states = every distance of the listed (n, p) curves; code->spec: every cell of the n = 2 "
                         "curves up to p_full, random cells / distances with p up to 31, whole tables for n = 1, 3, refinement samples; "
                         "each record validated by Trace_Hilbert. non-trivial = distinct (n, p, cell) records with p >= 2")
    chk.assumptions = ["all-p claim for n = 2 rests on TLC's check of lemma L1-L4 plus the induction written in DESIGN §4.2",
                       "conversion of Python integers to bit / digit sequences in harness/c07.py"]
    quick = tier == "quick"
    configs = {201, 202, 203, 204, 205, 206, 101, 104, 108, 301, 302, 303} if quick else \
              {201, 202, 203, 204, 205, 206, 207, 101, 104, 108, 110, 301, 302, 303, 304}
    res = run_jobs(shard_jobs("MC_Hilbert", dict(constants=dict(Configs=configs, PMaxH=5 if quick else 6),
                                                invariants=["RoundTrip", "InGrid", "UnitStep", "Refines", "Classical"]),
                              16, timeout=3000))
    chk.add_tlc(res)
    for r in res:
        if r.violated:
            # the transcription of the code violates the property inside the model: the traces below decide
            # whether the code does too
            chk.notes["design_counterexample"] = r.out[r.out.index("Error:"):][:600]
    recs = []
    # n = 2: every cell up to p_full through the vectorised entry points, both directions
    p_full = 6 if quick else 10
    for p in range(1, p_full + 1):
        side = 1 << p
        xs, ys = np.meshgrid(np.arange(side), np.arange(side), indexing="ij")
        coords = np.stack([xs.ravel(), ys.ravel()], axis=1).astype(np.int64)
        before = coords.copy()
        d = hc.distances_from_coordinates(p, coords)
        chk.count(len(coords))
        if not np.array_equal(coords, before):
            chk.violation("mutates", "distances_from_coordinates modified its argument", "", ctx=dict(site="distances_from_coordinates"))
        back = hc.coordinates_from_distances(p, 2, d)
        if not np.array_equal(back, coords):
            i = int(np.nonzero((back != coords).any(axis=1))[0][0])
            violation(chk, 2, p, f"round trip coordinates -> distance -> coordinates fails for cell {coords[i].tolist()}: "
                                 f"distance {int(d[i])} maps back to {back[i].tolist()}")
        step = 1 if (p <= 6 or not quick) else 7
        for i in range(0, len(coords), step):
            recs.append(dict(op="cell", p=p, xb=bits(coords[i, 0], p), yb=bits(coords[i, 1], p), dg=digits(d[i], p, 2)))
        dd = np.arange(side * side, dtype=np.int64)
        cc = hc.coordinates_from_distances(p, 2, dd)
        for i in range(0, len(dd), 3 if p > 5 else 1):
            recs.append(dict(op="decode", p=p, dg=digits(dd[i], p, 2), xb=bits(cc[i, 0], p), yb=bits(cc[i, 1], p)))
    # n = 2: random cells for every p up to 31, scalar and vectorised entry points
    nrand = 400 if quick else 15000
    for p in range(1, 32):
        side = 1 << p
        coords = np.array([[rng.randrange(side), rng.randrange(side)] for _ in range(nrand // 31 + 4)] +
                          [[0, 0], [side - 1, 0], [side - 1, side - 1], [0, side - 1]], dtype=np.int64)
        d = hc.distances_from_coordinates(p, coords)
        back = hc.coordinates_from_distances(p, 2, d)
        chk.count(len(coords))
        if not np.array_equal(back, coords):
            i = int(np.nonzero((back != coords).any(axis=1))[0][0])
            violation(chk, 2, p, f"round trip fails for cell {coords[i].tolist()} (distance {int(d[i])} -> {back[i].tolist()})")
        for i in range(len(coords)):
            recs.append(dict(op="cell", p=p, xb=bits(coords[i, 0], p), yb=bits(coords[i, 1], p), dg=digits(d[i], p, 2)))
            if i % 4 == 0:
                ds = int(hc.distance_from_coordinate(p, coords[i].copy()))
                cs = [int(v) for v in hc.coordinate_from_distance(p, 2, int(d[i]))]
                if ds != int(d[i]) or cs != coords[i].tolist():
                    violation(chk, 2, p, f"scalar and vectorised entry points disagree for cell {coords[i].tolist()}: "
                                         f"scalar distance {ds} vs {int(d[i])}, scalar cell {cs}")
            if p > 1 and i % 3 == 0:
                dp = hc.distances_from_coordinates(p - 1, (coords[i:i + 1] >> 1))
                recs.append(dict(op="refine", n=2, p=p, dg=digits(d[i], p, 2), dgp=digits(dp[0], p - 1, 2)))
        # random distances decoded
        hs = np.array([rng.randrange(1 << (2 * p)) for _ in range(6)] + [0, (1 << (2 * p)) - 1], dtype=np.int64)
        cc = hc.coordinates_from_distances(p, 2, hs)
        for i in range(len(hs)):
            recs.append(dict(op="decode", p=p, dg=digits(hs[i], p, 2), xb=bits(cc[i, 0], p), yb=bits(cc[i, 1], p)))
    # n = 1, 3 (and 2): whole tables, the property itself is the specification
    tables = [(1, 1), (1, 2), (1, 5), (1, 8), (3, 1), (3, 2), (3, 3), (2, 1), (2, 2), (2, 4)] + ([] if quick else [(3, 4), (1, 10), (2, 5)])
    for n, p in tables:
        N = 1 << (n * p)
        cells = hc.coordinates_from_distances(p, n, np.arange(N, dtype=np.int64))
        d = hc.distances_from_coordinates(p, cells.copy())
        chk.count(N)
        if not np.array_equal(d, np.arange(N)):
            violation(chk, n, p, "distance -> coordinates -> distance is not the identity on the full table")
        parent = hc.coordinates_from_distances(p - 1, n, np.arange(1 << (n * (p - 1)), dtype=np.int64)).tolist() if p > 1 else []
        recs.append(dict(op="table", n=n, p=p, cells=cells.tolist(), parent=parent))
    # n = 1, 3: refinement and round trip on random cells of large order
    for n, pmax in ((1, 62), (3, 20)):
        for _ in range(40 if quick else 1500):
            p = rng.randrange(2, pmax + 1)
            c = np.array([[rng.randrange(1 << p) for _ in range(n)]], dtype=np.int64)
            d = hc.distances_from_coordinates(p, c)
            dp = hc.distances_from_coordinates(p - 1, c >> 1)
            back = hc.coordinates_from_distances(p, n, d)
            chk.count()
            if not np.array_equal(back, c):
                violation(chk, n, p, f"round trip fails for cell {c[0].tolist()}")
            recs.append(dict(op="refine", n=n, p=p, dg=digits(d[0], p, n), dgp=digits(dp[0], p - 1, n)))
    # coordinate arrays of narrower integer types (the distance needs n * p bits, more than the coordinate type holds)
    for n, p, dt in ((2, 10, "int16"), (2, 5, "uint8"), (2, 16, "int32"), (2, 16, "uint32"), (3, 6, "uint8"), (1, 20, "int32"), (2, 12, "uint16")):
        side = 1 << p
        c64 = np.array([[rng.randrange(side) for _ in range(n)] for _ in range(60)] + [[side - 1] * n, [0] * n], dtype=np.int64)
        if side - 1 > np.iinfo(dt).max:
            continue
        want = hc.distances_from_coordinates(p, c64.copy())
        got = hc.distances_from_coordinates(p, c64.astype(dt))
        chk.count(len(c64))
        if not np.array_equal(np.asarray(got).astype(np.int64), np.asarray(want)) or (np.asarray(got) < 0).any():
            i = int(np.nonzero(np.asarray(got).astype(np.int64) != np.asarray(want))[0][0])
            violation(chk, n, p, f"coordinates given as {dt}: cell {c64[i].tolist()} gets distance {int(got[i])}, as int64 {int(want[i])}")
    # large batches whose length is not a power of two (a vectorised entry point may split the rows into chunks / switch to a parallel
    # build above some size): both directions, compared row by row with the scalar entry points on a sample that includes the tail,
    # round trips on every row, and a sample (with the tail) judged by TLC for n = 2
    for n, p, N in ((2, 9, 12289), (2, 12, 50000), (1, 20, 30011), (3, 6, 17001)) if quick else ((2, 9, 12289), (2, 12, 50000), (2, 15, 100003), (1, 20, 30011), (1, 30, 9001),
                                                                                                (3, 6, 17001), (3, 10, 40009)):
        total = 1 << (n * p)
        dd = np.array([rng.randrange(total) for _ in range(N)], dtype=np.int64)
        cc = hc.coordinates_from_distances(p, n, dd)
        back = hc.distances_from_coordinates(p, cc.copy())
        chk.count(N)
        if len(cc) != N or not np.array_equal(back, dd):
            i = int(np.nonzero(np.asarray(back) != dd)[0][0]) if len(cc) == N else -1
            violation(chk, n, p, f"batch of {N} distances: distance -> coordinates -> distance is not the identity (row {i}: {int(dd[i])} -> {cc[i].tolist()} -> {int(back[i])})")
            continue
        for i in list(range(0, N, 997)) + list(range(N - 40, N)):
            cs = [int(v) for v in hc.coordinate_from_distance(p, n, int(dd[i]))]
            ds = int(hc.distance_from_coordinate(p, cc[i].copy()))
            if cs != cc[i].tolist() or ds != int(dd[i]):
                violation(chk, n, p, f"batch of {N}: scalar and vectorised entry points disagree at row {i}: distance {int(dd[i])}, vectorised cell {cc[i].tolist()}, scalar cell {cs}")
                break
            if n == 2:
                recs.append(dict(op="decode", p=p, dg=digits(dd[i], p, 2), xb=bits(cc[i, 0], p), yb=bits(cc[i, 1], p)))
    verdicts, tres = validate_trace("Trace_Hilbert", recs, timeout=3000)
    chk.add_tlc(tres)
    chk.traces += len(recs)
    tally = {}
    for rec, st in verdicts:
        v = st["verdict"]
        tally[v] = tally.get(v, 0) + 1
        if rec["p"] >= 2 and rec["op"] != "table":
            chk.nontrivial_case(hash((rec["op"], rec.get("n", 2), rec["p"], repr(rec.get("xb")), repr(rec.get("yb")), repr(rec["dg"]))))
        if v == "mismatch":
            short = {k: (v2 if k != "cells" and k != "parent" else "...") for k, v2 in rec.items()}
            violation(chk, rec.get("n", 2), rec["p"], f"Trace_Hilbert rejects record {short}")
    chk.notes["trace_verdicts"] = tally
    chk.sample(recs[37])
    chk.sample({k: v for k, v in recs[-1].items()})
    if "design_counterexample" in chk.notes and not chk.violations:
        from .tlc import MachineryError
        raise MachineryError("MC_Hilbert fails but every trace of the code is accepted: HilbertSkilling mis-describes the code\n"
                             + chk.notes["design_counterexample"])
    return chk.finish()


def violation(chk, n, p, msg):
    replay = f"""import numpy as np
from spatialpandas.spatialindex import hilbert_curve as hc
n, p = {n}, {p}
N = 1 << (n * min(p, 4))
cells = hc.coordinates_from_distances(min(p, 4), n, np.arange(N, dtype=np.int64))
print(cells[:16].tolist())
print(hc.distances_from_coordinates(min(p, 4), cells)[:16].tolist())
# {msg}
"""
    chk.violation(f"{n}|{p}|{msg[:60]}", f"hilbert_curve n={n} p={p}: {msg}", replay, ctx=dict(site="hilbert_curve", n=n, p=p))
