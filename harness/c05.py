"""C05 - spatial join returns exactly the intersecting (left, right) pairs.

design       : MC_SJoin!DesignExact - per right row, candidates from the left R-tree (queried with the right row's
               bounds) filtered by the exact point test = the P-level set Hit, for every configuration of the scope.
spec -> code : every configuration (left rows x right rows x label styles) is replayed through spatialpandas.sjoin
               for how in {inner, left, right}, both suffix choices, with / without a clashing column, named / unnamed
               indexes; result type, column names, index name and the BAG of rows are compared with SJoin!Join.
code -> spec : random larger frames; the (left, right) pairs of the result rows judged by Trace_SJoin."""
from __future__ import annotations

import math

import numpy as np
import pandas as pd

from . import c01, c04, geom
from .core import Check
from .tlaval import iter_dump, parse_value
from .tlc import MachineryError, run_jobs, shard_jobs, validate_trace

NA = -999
RKINDS = ["polygon", "multipolygon", "line", "multiline", "point", "multipoint", "ring"]


def labels(style, n):
    return {0: list(range(n)), 1: [(i + 1) % 2 for i in range(n)], 2: [50 - i for i in range(n)]}[style]


def make_frames(lcat, rcat, rkind, lrows, rrows, lstyle, rstyle, clash, lname, rname):
    import spatialpandas as sp
    lg = [lcat[i - 1] for i in lrows]
    rg = [rcat[i - 1] for i in rrows]
    nl, nr = len(lrows), len(rrows)
    li = pd.Index(labels(lstyle, nl), name=lname)
    ri = pd.Index(labels(rstyle, nr), name=rname)
    left = sp.GeoDataFrame({"a": [10 * (i + 1) for i in range(nl)], ("s" if clash else "sl"): [101 + i for i in range(nl)],
                            "geometry": sp.GeoSeries(geom.make_array("point", lg), index=li)}, index=li)
    right = sp.GeoDataFrame({"b": [20 * (i + 1) for i in range(nr)], ("s" if clash else "sr"): [201 + i for i in range(nr)],
                             "geometry": sp.GeoSeries(geom.make_array(rkind, rg), index=ri)}, index=ri)
    return left, right, lg, rg


def num(v):
    if v is None or (isinstance(v, float) and math.isnan(v)) or v is pd.NA:
        return NA
    return int(v)


def result_rows(res, names, how, gkind, gcat):
    """result frame -> bag of (idx, XI, LA, LS, RB, RS, G) with G = canonical geometry"""
    rows = []
    garr = res[names["G"]].array
    gel = geom.from_array(gkind, garr)
    for k in range(len(res)):
        rows.append((num(res.index[k]), num(res[names["XI"]].iloc[k]), num(res[names["LA"]].iloc[k]), num(res[names["LS"]].iloc[k]),
                     num(res[names["RB"]].iloc[k]), num(res[names["RS"]].iloc[k]), repr(geom.canon(gkind, gel[k]))))
    return sorted(rows)


def run(tier: str, seed: int) -> int:
    import dask
    import dask.dataframe as dd
    import spatialpandas as sp
    chk = Check("C05", tier, seed)
    rng = chk.rng
    chk.notes["rule"] = ("spec->code: MC_SJoin configurations (<= NL left points incl. duplicates and a missing one x <= NR right shapes of each "
                         "kind incl. missing / empty x label styles), each replayed for how in {inner, left, right} with varying suffixes / "
                         "clash / index names; code->spec: random frames judged by Trace_SJoin. non-trivial = configuration with at least "
                         "one matching pair and at least one unmatched row on some side")
    chk.assumptions = ["points exactly on a polygon ring are outside the guarantee (configuration skipped: 'undecided')",
                       "rows are compared as a bag (no order is promised); numeric values by value, missing = missing"]
    quick = tier == "quick"
    jobs, plan = [], []
    for rk in RKINDS:
        # thorough: a quarter of the 16 shards per right-frame kind (which quarter depends on the seed); all of them, with the Dask-left
        # repetition of every configuration, take more than 4 h on 16 loaded cores
        nl, nr, ns, which = (2, 2, 64, range(0, 2)) if quick else (3, 2, 16, range(seed % 4, 16, 4))
        if quick and rk in ("ring", "multipoint", "multiline", "point"):
            which = range(0, 1)
        js = shard_jobs("MC_SJoin", dict(constants=dict(RKind=rk, NL=nl, NR=nr, MaxPS=2, AllPerms=not quick, Styles={0, 1} if quick else {0, 1, 2},
                                                        FullLeft=False),
                                         invariants=["DesignExact"]), ns, which=which, dump=True, continue_=True, timeout=3000)
        # the whole left catalogue against every short right frame: every ordered pair of catalogue shapes is adjacent somewhere
        js += shard_jobs("MC_SJoin", dict(constants=dict(RKind=rk, NL=0, NR=2 if quick else 3, MaxPS=3, AllPerms=False, Styles={1}, FullLeft=True),
                                          invariants=["DesignExact"]), 4, dump=True, continue_=True, timeout=3000)
        plan.append((rk, len(js)))
        jobs += js
    results = run_jobs(jobs)
    chk.add_tlc(results)
    bad = [r for r in results if r.violated]
    lcat, names = None, {}
    for chunk in results[0].printed():
        c = chunk.replace(" ", "").replace("\n", "")
        if c.startswith('<<"LCAT"'):
            lcat = parse_value(chunk)[1]
        elif c.startswith('<<"NAMES"'):
            v = parse_value(chunk)
            names[(v[1], v[2], v[3], v[4])] = v[5]
    cats = c04.catalogues()
    catname = dict(c04.CATS)
    before = len(chk.violations) + sum(chk.known_hits.values())
    off = 0
    for rk, k in plan:
        rs = results[off:off + k]
        off += k
        rcat = cats[catname[rk]]
        seen = set()
        for r in rs:
            for st in iter_dump(r.dump):
                sig = (tuple(st["lrows"]), tuple(st["rrows"]), st["lstyle"], st["rstyle"])
                if sig in seen:
                    continue
                seen.add(sig)
                x = st["expect"]
                if x["undecided"]:
                    continue
                h = hash(sig)
                clash = bool(h % 2)
                suf = [("left", "right"), ("L", "R")][(h // 2) % 2]
                lname = [None, "lid"][(h // 4) % 2]
                rname = [None, "rid"][(h // 8) % 2]
                nl, nr = len(st["lrows"]), len(st["rrows"])
                if x["hit"] and (len({p[0] for p in x["hit"]}) < nl or len({p[1] for p in x["hit"]}) < nr):
                    chk.nontrivial_n += 1
                left, right, lg, rg = make_frames(lcat, rcat, rk, st["lrows"], st["rrows"], st["lstyle"], st["rstyle"], clash, lname, rname)
                for how in ("inner", "left", "right"):
                    desc = (f"sjoin(left, right, how={how!r}, lsuffix={suf[0]!r}, rsuffix={suf[1]!r}); left points "
                            f"{[geom.to_py('point', e) for e in lg]} index {list(left.index)} (name {lname}); right {rk} "
                            f"{[geom.to_py(rk, e) for e in rg]} index {list(right.index)} (name {rname}); clash={clash}")
                    try:
                        res = sp.sjoin(left, right, how=how, lsuffix=suf[0], rsuffix=suf[1])
                    except Exception as ex:  # noqa: BLE001
                        chk.violation(f"raises|{rk}|{how}|{type(ex).__name__}", desc + f"\n  raises {type(ex).__name__}: {ex}", "# " + desc,
                                      ctx=dict(site="sjoin", mode="raises", rkind=rk,
                                               right_missing=any(e["null"] for e in rg), left_missing=any(e["null"] for e in lg)))
                        continue
                    chk.count()
                    nm = names[(how, clash, suf[0], suf[1])]
                    want_cols = {nm["LA"], nm["LS"], nm["RB"], nm["RS"], nm["G"], nm["XI"]}
                    if not isinstance(res, sp.GeoDataFrame):
                        chk.violation(f"type|{how}", desc + f"\n  result type {type(res).__name__}", "# " + desc, ctx=dict(site="sjoin", mode="type"))
                        continue
                    if set(res.columns) != want_cols:
                        chk.violation(f"columns|{how}|{clash}|{suf}", desc + f"\n  columns {sorted(res.columns)} expected {sorted(want_cols)}", "# " + desc,
                                      ctx=dict(site="sjoin", mode="columns"))
                        continue
                    want_iname = rname if how == "right" else lname
                    if res.index.name != want_iname:
                        chk.violation(f"indexname|{how}", desc + f"\n  index name {res.index.name!r} expected {want_iname!r}", "# " + desc,
                                      ctx=dict(site="sjoin", mode="indexname"))
                    gkind = rk if how == "right" else "point"
                    gcat = rcat if how == "right" else lcat
                    got = result_rows(res, nm, how, gkind, gcat)
                    want = sorted((w["idx"], w["XI"], w["LA"], w["LS"], w["RB"], w["RS"], repr(geom.canon(gkind, gcat[w["G"] - 1])))
                                  for w in x["rows"][how])
                    if got != want:
                        chk.violation(f"rows|{rk}|{how}|{sig}", desc + f"\n  rows (idx, index_col, a, s_l, b, s_r, geometry):\n   got  {got}\n   want {want}",
                                      "# " + desc, ctx=dict(site="sjoin", mode="rows", rkind=rk, how=how))
                    # the same join with a Dask frame on the left (partitions of one or a few rows: degenerate partition extents,
                    # right shapes that only touch them): same rows as the pandas join
                    if how != "right" and nl >= 1 and h % 3 == 0:
                        try:
                            with dask.config.set(scheduler="synchronous"):
                                dleft = dd.from_pandas(left, npartitions=min(nl, 1 + (h // 3) % 3), sort=False)
                                dres = sp.sjoin(dleft, right, how=how, lsuffix=suf[0], rsuffix=suf[1]).compute()
                        except Exception as ex:  # noqa: BLE001
                            chk.violation(f"dask-raises|{rk}|{how}|{type(ex).__name__}", "Dask left frame: " + desc + f"\n  raises {type(ex).__name__}: {ex}", "# " + desc,
                                          ctx=dict(site="sjoin.dask", mode="raises", rkind=rk))
                            continue
                        chk.count()
                        gotd = result_rows(dres, nm, how, gkind, gcat) if set(dres.columns) == want_cols else sorted(dres.columns)
                        if gotd != want:
                            chk.violation(f"dask-rows|{rk}|{how}|{sig}", f"Dask left frame ({dleft.npartitions} partitions): " + desc +
                                          f"\n  rows (idx, index_col, a, s_l, b, s_r, geometry):\n   got  {gotd}\n   want {want}",
                                          "# " + desc, ctx=dict(site="sjoin.dask", mode="rows", rkind=rk, how=how))
                if len(seen) == 7:
                    chk.sample({"right_kind": rk, "lrows": st["lrows"], "rrows": st["rrows"], "hit_pairs": x["hit"], "rows_left_join": x["rows"]["left"]})
    if bad and len(chk.violations) + sum(chk.known_hits.values()) == before:
        raise MachineryError("MC_SJoin: DesignExact violated but the code agrees with P on every configuration: SJoin!DPairs mis-describes the code\n"
                             + bad[0].out[bad[0].out.index("Error:"):][:1200])
    chk.exhaustive = False      # shards of the configurations are sampled in both tiers (each shard exhaustively)
    # code -> spec
    recs = []
    for a in range(30 if quick else 600):
        rk = RKINDS[a % 6]
        lim = rng.choice((3, 6, 20))
        nl = rng.choice([0, 1, 5, 20, 60])
        nr = rng.choice([0, 1, 3, 8, 15])
        lg = [c01.rand_element(rng, "point", lim) for _ in range(nl)]
        rg = [c01.rand_element(rng, rk, lim) for _ in range(nr)]
        left = sp.GeoDataFrame({"lid": list(range(1, nl + 1)), "geometry": geom.make_array("point", lg)},
                               index=pd.Index([rng.randrange(5) for _ in range(nl)], name=rng.choice([None, "ix"])))
        right = sp.GeoDataFrame({"rid": list(range(1, nr + 1)), "geometry": geom.make_array(rk, rg)},
                                index=pd.Index([f"r{rng.randrange(4)}" for _ in range(nr)]))
        for how in ("inner", "left", "right"):
            try:
                res = sp.sjoin(left, right, how=how)
            except Exception as ex:  # noqa: BLE001
                chk.violation(f"raises-trace|{rk}|{how}|{type(ex).__name__}", f"sjoin(how={how!r}) on random frames ({nl} points x {nr} {rk}) raises "
                              f"{type(ex).__name__}: {ex}", "", ctx=dict(site="sjoin", mode="raises", rkind=rk,
                                                                          right_missing=any(e["null"] for e in rg), left_missing=any(e["null"] for e in lg)))
                continue
            chk.count()
            pairs = [[num(l) if num(l) != NA else 0, num(r) if num(r) != NA else 0] for l, r in zip(res["lid"], res["rid"])]
            recs.append(dict(lg=[dict(null=e["null"], g=e["g"]) for e in lg], rk=rk, rg=[dict(null=e["null"], g=e["g"]) for e in rg],
                             how=how, pairs=pairs))
    verdicts, tres = validate_trace("Trace_SJoin", recs, timeout=3000)
    chk.add_tlc(tres)
    chk.traces += len(recs)
    tally = {}
    for rec, st in verdicts:
        v = st["verdict"]
        tally[v] = tally.get(v, 0) + 1
        if v == "ok" and any(p[0] and p[1] for p in rec["pairs"]):
            chk.nontrivial_case(hash(repr(rec)))
        if v == "mismatch":
            chk.violation("trace|" + repr(rec)[:150], f"sjoin(how={rec['how']!r}) on random frames: result pairs {rec['pairs']} rejected by Trace_SJoin\n"
                          f"  left points {[geom.to_py('point', e) for e in rec['lg']]}\n  right {rec['rk']} {[geom.to_py(rec['rk'], e) for e in rec['rg']]}"[:3000],
                          f"# {rec!r}"[:6000], ctx=dict(site="sjoin", mode="trace", rkind=rec["rk"], how=rec["how"]))
    chk.notes["trace_verdicts"] = tally
    return chk.finish()
