"""C04 - .cx selects exactly the intersecting rows, with or without a spatial index.

design       : MC_GeoFrame - state machine Init ; [Build(ps, perm)] ; [Slice | Copy] ; [Build] ; Cx(key); TLC checks
               CxExact (index path = mask path = P-level meaning) for every behaviour of the small scope.
spec -> code : every Cx-state of the dump is replayed: the behaviour's operations are performed on a real array /
               GeoSeries / GeoDataFrame (labels with duplicates / strings / floats, extra column), after each step the
               index state of the object is compared with the model's, and the final selection (type, rows, labels,
               column values, element values) with the model's `want`.
code -> spec : random larger objects and keys (index of random page size, or none), each call judged by Trace_GeoFrame."""
from __future__ import annotations

import math

import numpy as np
import pandas as pd

from . import c01, geom
from .core import Check
from .tlaval import iter_dump
from .tlc import MachineryError, run_jobs, shard_jobs, validate_trace

OMIT = 999999
CATS = [("point", "CatPoint"), ("multipoint", "CatMultiPoint"), ("line", "CatLine"), ("ring", "CatRing"),
        ("multiline", "CatMultiLine"), ("polygon", "CatPolygon"), ("multipolygon", "CatMultiPolygon")]


def labels_for(n, style):
    if style == 0:
        return None
    if style == 1:
        return [f"k{i % 2}" for i in range(n)]          # duplicates
    if style == 2:
        return [1.5 * i - 1 for i in range(n)]
    return [10 - i for i in range(n)]                   # descending ints (not positions)


def build_object(kind, elems, container, style, aff=None):
    import spatialpandas as sp
    arr = geom.make_array(kind, elems) if aff is None else geom.make_array(kind, elems, aff, "float64")
    if container == "array":
        return arr
    lab = labels_for(len(elems), style)
    if container == "series":
        return sp.GeoSeries(arr, index=lab)
    return sp.GeoDataFrame({"v": [10 * i for i in range(len(elems))], "shape": sp.GeoSeries(arr, index=lab),
                            "w": [f"s{i}" for i in range(len(elems))]}, index=lab)


def array_of(obj, container):
    if container == "array":
        return obj
    if container == "series":
        return obj.array
    return obj["shape"].array


def axis_arg(spec):
    lo, hi, scalar = spec
    if scalar:
        return lo
    return slice(None if lo == OMIT else lo, None if hi == OMIT else hi)


def replay_state(chk, kind, cat_elems, st, container, style, p, bigps):
    rows0 = st["rows0"]
    elems0 = [cat_elems[i - 1] for i in rows0]
    obj = build_object(kind, elems0, container, style)
    lab0 = labels_for(len(elems0), style) or list(range(len(elems0)))
    has_index = False
    desc = [f"{container} of {kind}: {[geom.to_py(kind, e) for e in elems0]!r} labels={lab0!r}"]
    for h in st["hist"]:
        if h["op"] == "build":
            ps = h["a"] if not bigps else 512
            obj.build_sindex(p=p, page_size=ps)
            has_index = True
            desc.append(f"build_sindex(p={p}, page_size={ps})")
        elif h["op"] == "slice":
            obj = obj[h["a"]:h["b"]] if container == "array" else obj.iloc[h["a"]:h["b"]]
            has_index = False
            desc.append(f"[{h['a']}:{h['b']}]")
        elif h["op"] == "step":
            obj = obj[::h["a"]] if container == "array" else obj.iloc[::h["a"]]
            has_index = False
            desc.append(f"[::{h['a']}]")
        elif h["op"] == "copy":
            obj = obj.copy()
            has_index = False
            desc.append("copy()")
        elif h["op"] == "cx":
            key = h["key"]
            desc.append(f"cx[{axis_arg(key[0])!r}, {axis_arg(key[1])!r}]")
            got_index = array_of(obj, container)._sindex is not None
            if got_index != has_index:
                # abstract-state conformance: the model's idea of "has an index" must match the object
                chk.notes["index_state_departures"] = chk.notes.get("index_state_departures", 0) + 1
            res = obj.cx[axis_arg(key[0]), axis_arg(key[1])]
            chk.count()
            if st["out"]["unspec"]:
                return
            want_pos = st["out"]["want"]                      # 1-based positions in the CURRENT object
            src = st["src"]                                   # current position -> original position (1-based)
            want_src = [src[q - 1] - 1 for q in want_pos]     # 0-based original positions
            ok, why = compare(kind, container, res, obj, elems0, lab0, want_src)
            if not ok:
                report(chk, kind, container, desc, why, res, want_src, has_index)
            return


def compare(kind, container, res, obj, elems0, lab0, want_src):
    import spatialpandas as sp
    want_elems = [geom.canon(kind, elems0[i]) for i in want_src]
    if container == "array":
        if type(res) is not type(obj):
            return False, f"result type {type(res).__name__}"
        got = [geom.canon(kind, e) for e in geom.from_array(kind, res)]
        return (got == want_elems), f"elements {got} != {want_elems}"
    if container == "series":
        if not isinstance(res, sp.GeoSeries):
            return False, f"result type {type(res).__name__}"
        got = [geom.canon(kind, e) for e in geom.from_array(kind, res.array)]
        if got != want_elems:
            return False, f"elements {got} != {want_elems}"
        if list(res.index) != [lab0[i] for i in want_src]:
            return False, f"labels {list(res.index)} != {[lab0[i] for i in want_src]}"
        return True, ""
    if not isinstance(res, sp.GeoDataFrame):
        return False, f"result type {type(res).__name__}"
    if list(res.columns) != ["v", "shape", "w"]:
        return False, f"columns {list(res.columns)}"
    got = [geom.canon(kind, e) for e in geom.from_array(kind, res["shape"].array)]
    if got != want_elems:
        return False, f"elements {got} != {want_elems}"
    if list(res.index) != [lab0[i] for i in want_src] or list(res["v"]) != [10 * i for i in want_src] or \
            list(res["w"]) != [f"s{i}" for i in want_src]:
        return False, f"labels / other columns: index {list(res.index)}, v {list(res['v'])}; expected rows {want_src}"
    return True, ""


def report(chk, kind, container, desc, why, res, want_src, has_index):
    msg = " ; ".join(desc) + f"\n  -> {why}; expected original rows {want_src} (index built: {has_index})"
    chk.violation(f"{kind}|{container}|{desc[1:]}|{why[:40]}", msg, "# " + "\n# ".join(desc) + "\n",
                  ctx=dict(site=f"{container}.cx", kind=kind, index=has_index))


def run(tier: str, seed: int) -> int:
    chk = Check("C04", tier, seed)
    rng = chk.rng
    chk.notes["rule"] = ("spec->code: every Cx-state of MC_GeoFrame (rows x [build ps] x [slice|copy] x [build] x key), deduplicated over the "
                         "key permutation, replayed on array / GeoSeries / GeoDataFrame; code->spec: random objects (0..200 rows) and keys "
                         "judged by Trace_GeoFrame. non-trivial = Cx-state whose expected selection is neither empty nor everything")
    chk.assumptions = ["zero-width / zero-height boxes on line / polygon kinds are outside the guarantee (model verdict 'unspec')",
                       "the key order chosen by the index build is an arbitrary permutation in the model"]
    quick = tier == "quick"
    jobs = []
    plan = []
    for kind, cat in CATS:
        # thorough: every fourth of the 64 hash shards of the initial frames (which quarter depends on the seed) - all 64 take > 4 h
        # of TLC plus replay on 16 cores since the model has stepped slices; each shard is explored exhaustively
        n, maxps, stride, ns, which = (2, 2, 7, 16, range(0, 3)) if quick else (3, 3, 1, 64, range(seed % 4, 64, 4))
        if quick and kind in ("ring", "multipoint", "multiline"):
            which = range(0, 1)
        js = shard_jobs("MC_GeoFrame", dict(constants=dict(Kind=kind, Elems="<- " + cat, MaxOps=4, N=n, MaxPS=maxps, KeyStride=stride,
                                                           AllPerms=not quick),
                                            invariants=["CxExact"]), ns, which=which, dump=True, continue_=True, timeout=3000 if quick else 12000)
        plan.append((kind, cat, len(js)))
        jobs += js
    results = run_jobs(jobs)
    chk.add_tlc(results)
    bad = [r for r in results if r.violated]
    if bad:
        chk.notes["design_counterexample"] = bad[0].out[bad[0].out.index("Error:"):][:1500]
    # catalogue values: parse from a tiny TLC evaluation of the module's definitions
    cats = catalogues()
    before = len(chk.violations) + sum(chk.known_hits.values())
    off = 0
    for kind, cat, k in plan:
        rs = results[off:off + k]
        off += k
        seen = set()
        nst = 0
        for r in rs:
            for st in iter_dump(r.dump):
                if not st["out"]["done"]:
                    continue
                sig = (tuple(st["rows0"]), tuple((h["op"], h["a"], h["b"], repr(h["key"])) for h in st["hist"]))
                if sig in seen:
                    continue
                seen.add(sig)
                nst += 1
                h = hash(sig)
                container = ["array", "series", "frame"][h % 3]
                want = st["out"]["want"]
                if want and len(want) < len(st["rows"]):
                    chk.nontrivial_n += 1
                replay_state(chk, kind, cats[cat], st, container, (h // 3) % 4, [1, 5, 10, 15][(h // 12) % 4], (h // 48) % 5 == 0)
                if nst == 5:
                    chk.sample({"kind": kind, "rows0": st["rows0"], "hist": [dict(op=x["op"], a=x["a"], b=x["b"], key=x["key"]) for x in st["hist"]],
                                "want_positions": want})
    if bad and len(chk.violations) + sum(chk.known_hits.values()) == before:
        raise MachineryError("MC_GeoFrame: CxExact violated but the code agrees with the P-level meaning on every replayed state: "
                             "the model of the mechanism mis-describes the code\n" + chk.notes["design_counterexample"])
    chk.exhaustive = False      # shards of the initial frames are sampled in both tiers (each shard exhaustively)
    # code -> spec
    recs = []
    for a in range(40 if quick else 800):
        kind = geom.KINDS[a % 7]
        lim = rng.choice((3, 6, 40))
        n = rng.choice([0, 1, 2, 7, 30, 120] if quick else [0, 1, 5, 30, 200])
        elems = [c01.rand_element(rng, kind, lim) for _ in range(n)]
        container = ["array", "series", "frame"][a % 3]
        # exact images whose float64 coordinates are NOT representable in float32 (a translation beyond 2^24 for every kind; a
        # decimal scale for the point kinds, where only comparisons matter): the selection must not depend on the index's arithmetic
        aff = None
        if a % 3 == 1 and not any(geom.has_special(e) for e in elems):
            aff = geom.Affine(0.1, 0.3, 0.1, 0.7, name="decimal") if kind in ("point", "multipoint") and a % 2 else \
                geom.Affine(1.0, 2.0 ** 24 + 1, 1.0, -(2.0 ** 24 + 3), name="beyond-float32")
        obj = build_object(kind, elems, container, a % 4, aff)
        if rng.random() < 0.7:
            obj.build_sindex(p=rng.choice([1, 4, 10]), page_size=rng.choice([1, 2, 3, 7, 16, 512]))
        lab0 = labels_for(n, a % 4) or list(range(n))
        for _ in range(5):
            key = []
            for ax in range(2):
                t = rng.random()
                a0, b0 = rng.randrange(-lim - 2, lim + 3), rng.randrange(-lim - 2, lim + 3)
                if t < 0.15:
                    key.append([OMIT, OMIT, 0])
                elif t < 0.3:
                    key.append([a0, OMIT, 0])
                elif t < 0.45:
                    key.append([OMIT, b0, 0])
                elif t < 0.5 and kind in ("point", "multipoint"):
                    key.append([a0, a0, 1])
                else:
                    if a0 == b0:
                        b0 += 1
                    key.append([a0, b0, 0])
            if aff is None:
                res = obj.cx[axis_arg(key[0]), axis_arg(key[1])]
            else:
                kx = [key[0][0] if key[0][0] == OMIT else aff.x(key[0][0]), key[0][1] if key[0][1] == OMIT else aff.x(key[0][1]), key[0][2]]
                ky = [key[1][0] if key[1][0] == OMIT else aff.y(key[1][0]), key[1][1] if key[1][1] == OMIT else aff.y(key[1][1]), key[1][2]]
                res = obj.cx[axis_arg(kx), axis_arg(ky)]
            chk.count()
            # positions of the returned rows: recover through the extra column / by walking the elements in order
            if container == "frame":
                pos = [v // 10 + 1 for v in res["v"]]
            else:
                got = [geom.canon(kind, e) for e in geom.from_array(kind, res if container == "array" else res.array, aff or geom.IDENT)]
                src = [geom.canon(kind, e) for e in elems]
                pos, j = [], 0
                for g in got:                                   # greedy order-preserving match
                    while j < len(src) and src[j] != g:
                        j += 1
                    pos.append(j + 1 if j < len(src) else 0)
                    j += 1
            recs.append(dict(kind=kind, elems=[dict(null=e["null"], g=e["g"]) for e in elems], key=key, res=pos, container=container))
    verdicts, tres = validate_trace("Trace_GeoFrame", recs, timeout=3000)
    chk.add_tlc(tres)
    chk.traces += len(recs)
    tally = {}
    for rec, st in verdicts:
        v = st["verdict"]
        tally[v] = tally.get(v, 0) + 1
        if v == "ok" and rec["res"] and len(rec["res"]) < len(rec["elems"]):
            chk.nontrivial_case(hash(repr(rec)))
        if v == "mismatch":
            chk.violation("trace|" + repr(rec)[:120], f"{rec['container']}.cx[{axis_arg(rec['key'][0])!r}, {axis_arg(rec['key'][1])!r}] on a random "
                          f"{rec['kind']} object of {len(rec['elems'])} rows returned rows {rec['res']} - rejected by Trace_GeoFrame\n"
                          f"  elements: {[geom.to_py(rec['kind'], e) for e in rec['elems']]!r}"[:3000], f"# {rec!r}\n"[:5000],
                          ctx=dict(site=f"{rec['container']}.cx", kind=rec["kind"], mode="trace"))
    chk.notes["trace_verdicts"] = tally
    return chk.finish()


_cats = None


def catalogues():
    """The catalogue constants of MC_GeoFrame, read from TLC (one source of truth)."""
    global _cats
    if _cats is None:
        from .tlaval import parse_value
        from .tlc import run_tlc
        r = run_tlc("MC_GeoFrameCat", cfg=dict(constants={}), timeout=3000)
        out = {}
        for chunk in r.printed():
            c = chunk.replace(" ", "").replace("\n", "")
            if c.startswith('<<"CAT"'):
                v = parse_value(chunk)
                out[v[1]] = v[2]
        _cats = out
    return _cats
