"""Abstract projection of (Geo)DataFrames for ParquetDS (C11 / C12 / C10): what a user can observe, as integers / strings."""
from __future__ import annotations

import math
import re

import numpy as np
import pandas as pd

from . import geom

_tokens = {}


def tok(v):
    """opaque integer token for a non-integer scalar (strings, floats, None)"""
    if isinstance(v, (int, np.integer)) and not isinstance(v, bool):
        return int(v)
    k = repr(v) if not (isinstance(v, float) and math.isnan(v)) else "nan"
    if k not in _tokens:
        _tokens[k] = 10 ** 6 + len(_tokens)
    return _tokens[k]


def geo_info(series):
    name = series.dtype.name            # e.g. 'multiline[float32]'
    m = re.match(r"(\w+)\[(\w+)\]", name)
    return m.group(1), m.group(2)


def abstract(df):
    from spatialpandas.geometry import GeometryDtype
    geo, other = [], []
    for c in df.columns:
        s = df[c]
        if isinstance(s.dtype, GeometryDtype):
            kind, subtype = geo_info(s)
            geo.append(dict(col=str(c), kind=kind, subtype=subtype,
                            elems=[dict(null=e["null"], g=e["g"]) for e in geom.from_array(kind, s.array)]))
        else:
            other.append(dict(col=str(c), vals=[tok(v) for v in s.tolist()]))
    return dict(type=type(df).__name__, cols=[str(c) for c in df.columns], iname=df.index.name or "",
                ivals=[tok(v) for v in df.index.tolist()], geo=geo, other=other)


def enc_bounds(v):
    v = math.nan if v is None else float(v)          # (a JSON null stands for an undefined extent)
    if math.isnan(v):
        return geom.NAN
    assert v == int(v), v
    return int(v)
