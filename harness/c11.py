"""C11 - parquet round trips are lossless for every geometry type.

spec         : ParquetDS - the abstract frame record; RoundTripWhy (identity), Project (columns= keeps the requested columns in
               the requested order plus the index), ConcatFrames (list / glob = concatenation in path order).
code -> spec : the driver walks the configuration space (7 kinds x 5 subtypes x missing / empty patterns x backing {fresh, sliced,
               concatenated, taken} x 1-2 geometry columns x index kinds x compression x 1..12 partitions x projections, pandas and
               Dask writers / readers); the abstract projections before and after are one trace record judged by Trace_ParquetDS.
residual     : byte-level fidelity of parquet / arrow is observed, not modelled."""
from __future__ import annotations

import os
import shutil
import tempfile

import numpy as np
import pandas as pd

from . import c04, geom
from .core import Check
from .frames import abstract
from .tlc import run_tlc, validate_trace

INDEXES = ["default", "named", "unnamed", "nonunique", "hilbert", "strings", "range-offset", "range-step"]


def make_index(kind, n, rng):
    if kind == "default":
        return None
    if kind == "named":
        return pd.Index(range(100, 100 + n), name="key")
    if kind == "range-offset":              # what a positional slice of a default-indexed frame carries: a RangeIndex that is not 0..n-1
        return pd.RangeIndex(5, 5 + n)
    if kind == "range-step":
        return pd.RangeIndex(2, 2 + 3 * n, 3)
    if kind == "unnamed":
        return pd.Index([3 * i + 7 for i in range(n)])
    if kind == "nonunique":
        return pd.Index([i // 2 for i in range(n)], name="dup")
    if kind == "hilbert":
        return pd.Index(sorted(rng.randrange(1 << 20) for _ in range(n)), name="hilbert_distance")
    return pd.Index([f"r{i}" for i in range(n)])


def backed(kind, elems, subtype, how, pad):
    if how == "fresh":
        return geom.make_array(kind, elems, geom.IDENT, subtype)
    if how == "sliced":
        return geom.make_array(kind, pad + elems + pad[:1], geom.IDENT, subtype)[len(pad):len(pad) + len(elems)]
    if how == "concat":
        h = len(elems) // 2
        a = geom.make_array(kind, elems[:h], geom.IDENT, subtype)
        b = geom.make_array(kind, pad[:1] + elems[h:], geom.IDENT, subtype)[1:]
        return type(a)._concat_same_type([a, b])
    arr = geom.make_array(kind, list(reversed(elems)), geom.IDENT, subtype)
    return arr.take(np.arange(len(elems) - 1, -1, -1))


def run(tier: str, seed: int) -> int:
    import dask
    import dask.dataframe as dd
    import spatialpandas as sp
    from spatialpandas.io import read_parquet, read_parquet_dask, to_parquet
    chk = Check("C11", tier, seed)
    rng = chk.rng
    chk.notes["rule"] = ("configurations: kind x subtype x backing x index kind x compression x partitions x projection (each configuration draws "
                         "the remaining dimensions so that all pairs of values occur), pandas and Dask writers / readers, lists and globs of "
                         "datasets; every (before, after) pair of abstract frames is a trace record judged by Trace_ParquetDS; non-trivial = "
                         "record whose frame holds a missing or empty geometry and >= 3 rows")
    chk.assumptions = ["parquet / arrow byte-level encoding is observed through read-back only (not modelled)",
                       "integer-valued coordinates (incl. NaN / inf where the subtype allows) so that the abstract record is exact"]
    quick = tier == "quick"
    r = run_tlc("MC_ParquetDS", cfg=dict(constants=dict(MaxParts=16), invariants=["NumericOrder", "Sensitive"]), timeout=3000)
    chk.add_tlc(r)
    cats = c04.catalogues()
    catname = dict(c04.CATS)
    tmp = tempfile.mkdtemp(prefix="c11-", dir=os.environ.get("TMPDIR") or "/var/tmp")
    recs, meta = [], []
    cfgno = 0
    try:
        with dask.config.set(scheduler="synchronous"):
            reps = 4 if quick else 30
            for rep in range(reps):
                for ki, kind in enumerate(geom.KINDS):
                    cat = cats[catname[kind]]
                    for si, subtype in enumerate(geom.SUBTYPES):
                        cfgno += 1
                        integer = np.dtype(subtype).kind == "i"
                        pool = [e for e in cat if not (integer and geom.has_special(e))]
                        n = rng.choice([1, 4, 7, 13])
                        elems = [rng.choice(pool) for _ in range(n)]
                        if n >= 3:
                            elems[rng.randrange(n)] = geom.NULL
                        how = ["fresh", "sliced", "concat", "taken"][(cfgno + rep) % 4]
                        ikind = INDEXES[(cfgno * 5 + ki + rep) % len(INDEXES)]
                        comp = ["snappy", "gzip", None][(cfgno + si) % 3]
                        nparts = [1, 2, 3, 5, 12][(cfgno + ki * 2) % 5]
                        two = (cfgno % 3 == 0)
                        data = {"a": list(range(n)), "g1": backed(kind, elems, subtype, how, pool[:2])}
                        if two:
                            okind = geom.KINDS[(ki + 3) % 7]
                            ocat = [e for e in cats[catname[okind]] if not geom.has_special(e)]
                            data["g2"] = geom.make_array(okind, [ocat[i % len(ocat)] for i in range(n)], geom.IDENT, "int16" if ki % 2 else "float32")
                        data["s"] = [f"x{i % 3}" for i in range(n)]
                        df = sp.GeoDataFrame(data, index=make_index(ikind, n, rng))
                        before = abstract(df)
                        info = dict(kind=kind, subtype=subtype, backing=how, index=ikind, compression=comp, nparts=nparts, two=two, n=n)
                        nontriv = n >= 3
                        # pandas writer / reader
                        path = os.path.join(tmp, f"p{cfgno}_{rep}.parq")
                        try:
                            to_parquet(df, path, compression=comp)
                            back = read_parquet(path)
                            chk.count()
                            recs.append(dict(op="roundtrip", before=before, after=abstract(back)))
                            meta.append(dict(info, path="pandas", nontriv=nontriv))
                            want = [c for c in ["s", "g1", "a"] if c in df.columns][: 2 + cfgno % 2]
                            proj = read_parquet(path, columns=want)
                            recs.append(dict(op="project", before=before, want=want, after=abstract(proj)))
                            meta.append(dict(info, path="pandas columns=" + repr(want), nontriv=nontriv))
                            # Dask writer / reader
                            dpath = os.path.join(tmp, f"d{cfgno}_{rep}.parq")
                            ddf = dd.from_pandas(df, npartitions=min(nparts, n))
                            ddf.to_parquet(dpath, compression=comp)
                            before_d = abstract(ddf.compute())            # (from_pandas sorts an unsorted index: the Dask frame is the reference)
                            rd = read_parquet_dask(dpath)
                            chk.count()
                            recs.append(dict(op="roundtrip", before=before_d, after=abstract(rd.compute())))
                            meta.append(dict(info, path="dask", nontriv=nontriv))
                            if type(rd).__name__ != "DaskGeoDataFrame" or (rd.index.name or "") != before["iname"]:
                                chk.violation(f"dasktype|{ikind}", f"read_parquet_dask returned {type(rd).__name__} with index name {rd.index.name!r} "
                                              f"(written frame: {before['iname']!r}); {info}", "", ctx=dict(site="read_parquet_dask", mode="collection"))
                            projd = read_parquet_dask(dpath, columns=want).compute()
                            recs.append(dict(op="project", before=before_d, want=want, after=abstract(projd)))
                            meta.append(dict(info, path="dask columns=" + repr(want), nontriv=nontriv))
                            # several datasets through a list (not in sorted order) and a glob
                            if cfgno % 4 == 0:
                                names = ["zeta", "alpha", "mid"]
                                frames = []
                                for j, nm in enumerate(names):
                                    sub = df.iloc[j::3] if n >= 3 else df
                                    if len(sub) == 0:
                                        sub = df
                                    dsub = dd.from_pandas(sub, npartitions=min(2, len(sub)))
                                    dsub.to_parquet(os.path.join(tmp, f"multi{cfgno}_{rep}", nm + ".parq"), compression=comp)
                                    frames.append(abstract(dsub.compute()))
                                lst = [os.path.join(tmp, f"multi{cfgno}_{rep}", nm + ".parq") for nm in names]
                                got = read_parquet_dask(lst).compute()
                                recs.append(dict(op="concat", frames=frames, after=abstract(got)))
                                meta.append(dict(info, path="dask list " + repr(names), nontriv=nontriv))
                                gl = read_parquet_dask(os.path.join(tmp, f"multi{cfgno}_{rep}", "*.parq")).compute()
                                order = sorted(range(3), key=lambda j: names[j])
                                recs.append(dict(op="concat", frames=[frames[j] for j in order], after=abstract(gl)))
                                meta.append(dict(info, path="dask glob", nontriv=nontriv))
                        except Exception as ex:  # noqa: BLE001
                            import traceback
                            chk.violation(f"raises|{kind}|{type(ex).__name__}|{str(ex)[:50]}", f"parquet round trip raises {type(ex).__name__}: {ex}; {info}\n"
                                          + traceback.format_exc()[-700:], "", ctx=dict(site="parquet", mode="raises", kind=kind))
    finally:
        shutil.rmtree(tmp, ignore_errors=True)
    verdicts, tres = validate_trace("Trace_ParquetDS", recs, timeout=3000)
    chk.add_tlc(tres)
    chk.traces += len(recs)
    tally = {}
    for (rec, st), info in zip(verdicts, meta):
        v = st["verdict"]
        tally[v] = tally.get(v, 0) + 1
        if v == "ok" and info["nontriv"]:
            chk.nontrivial_case(hash(repr(rec)))
        if v != "ok":
            after = rec["after"]
            chk.violation(f"{rec['op']}|{v}|{info['path'].split(' ')[0]}|{info['index']}", f"parquet {rec['op']} ({info['path']}): '{v}' differs; configuration {info}\n"
                          f"  read back: type {after['type']} cols {after['cols']} index name {after['iname']!r} values {after['ivals'][:8]}"[:2500], f"# {info}",
                          ctx=dict(site="parquet." + rec["op"], mode=v, path=info["path"].split(" ")[0], index=info["index"]))
    chk.notes["trace_verdicts"] = tally
    if recs:
        chk.sample({"op": recs[0]["op"], "before": recs[0]["before"]})
    return chk.finish()
