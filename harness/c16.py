"""C16 - derived arrays hold the same elements and behave like fresh ones.

model        : MC_GeoArray - every history of <= MaxOps derivation steps (integer indexing, slices with any step, masks,
               integer arrays, take +- fill, concat, copy, pickle, iteration, Series wrapping, parquet round trip) over every
               source array of the scope, with the element sequence or the error class each step must produce.
               MC_ArrowBuf - the D-level statement: for every Arrow layout that decodes to an abstract array (offsets,
               junk, validity bitmap with offset), the code's accessors give the abstract quantities.
spec -> code : every history is replayed on all seven array types (source arrays fresh or cut out of a larger buffer);
               after every step the elements (arr[i], iteration, raw arrow data), length and missing mask are compared
               with the model; at the end every derived quantity (bounds, total_bounds, length, area, box and shape
               intersection, Hilbert distance, ==) is compared with the same quantity of a FRESH array of the expected
               elements; failing requests must raise the modelled error class."""
from __future__ import annotations

import io
import math
import pickle

import numpy as np
import pandas as pd

from . import c04, geom
from .core import Check
from .tlaval import iter_dump
from .tlc import MachineryError, run_jobs, run_tlc, shard_jobs

NONEV = 99999
NULLIX = {"point": 3, "multipoint": 2, "line": 3, "ring": 2, "multiline": 2, "polygon": 3, "multipolygon": 2}
BOXES = [(1, 1, 3, 3), (-1, -1, 0.5, 0.5), (0, 0, 4, 4), (3, 0, 5, 2), (2, 2, 2.5, 2.5), (5, 5, 6, 6)]


def none(v):
    return None if v == NONEV else v


def apply_op(kind, arr, src_arr, op, args, via_series):
    import spatialpandas as sp
    if op == "getitem":
        return arr[args[0]]
    if op == "slice":
        sl = slice(none(args[0]), none(args[1]), none(args[2]))
        if via_series:
            return sp.GeoSeries(arr).iloc[sl].array
        return arr[sl]
    if op == "mask":
        if any(v == 2 for v in args):
            m = pd.array([None if v == 2 else bool(v) for v in args], dtype="boolean")
        else:
            m = np.array([bool(v) for v in args], dtype=bool)
        if via_series and len(m) == len(arr) and not any(v == 2 for v in args):
            return sp.GeoSeries(arr)[m].array
        return arr[m]
    if op == "intidx":
        idx = list(args)
        if via_series and len(idx) and all(-len(arr) <= i < len(arr) for i in idx):
            return sp.GeoSeries(arr).iloc[idx].array
        return arr[np.array(idx, dtype=np.int64)] if len(idx) % 2 else arr[idx]
    if op == "take":
        return arr.take(list(args)) if len(args) % 2 else arr.take(np.array(args, dtype=np.int64))
    if op == "takefill":
        return arr.take(np.array(args, dtype=np.int64), allow_fill=True, fill_value=None if len(args) % 2 else np.nan)
    if op == "shift":
        return sp.GeoSeries(arr).shift(args[0]).array if via_series else arr.shift(args[0])
    if op == "repeat":
        return sp.GeoSeries(arr).repeat(args[0]).array if via_series else arr.repeat(args[0])
    if op == "dropna":
        return sp.GeoSeries(arr).dropna().array if via_series else arr.dropna()
    if op == "fillna":
        return sp.GeoSeries(arr).fillna(src_arr[0]).array if via_series else arr.fillna(src_arr[0])
    if op == "insert":
        return arr.insert(args[0], src_arr[0])
    if op == "delete":
        return arr.delete(sorted(args))
    if op == "concat_self":
        return type(arr)._concat_same_type([arr, arr])
    if op == "concat_src":
        if via_series:
            return pd.concat([sp.GeoSeries(arr), sp.GeoSeries(src_arr)], ignore_index=True).array
        return type(arr)._concat_same_type([arr, src_arr])
    if op == "copy":
        return sp.GeoSeries(arr).copy().array if via_series else arr.copy()
    if op == "pickle":
        return pickle.loads(pickle.dumps(arr))
    if op == "iter":
        return type(arr)(list(arr), dtype=arr.dtype)
    if op == "series_iloc_all":
        s = sp.GeoSeries(arr, index=[f"k{i}" for i in range(len(arr))])
        return s.loc[list(s.index)].array if len(arr) else s.array
    if op == "parquet":
        df = sp.GeoDataFrame({"g": arr, "i": range(len(arr))})
        buf = io.BytesIO()
        df.to_parquet(buf)
        buf.seek(0)
        back = pd.read_parquet(buf)
        return back["g"].array
    raise ValueError(op)


def elements_ok(kind, arr, want):
    """elements through three independent accessors"""
    if len(arr) != len(want):
        return f"len {len(arr)} != {len(want)}"
    w = [geom.canon(kind, e) for e in want]
    a = [geom.canon(kind, e) for e in geom.from_array(kind, arr)]
    if a != w:
        return f"arr[i] gives {a}, expected {w}"
    it = [geom.canon(kind, geom.from_scalar(kind, s)) for s in arr]
    if it != w:
        return f"iteration gives {it}, expected {w}"
    isna = [bool(v) for v in arr.isna()]
    if isna != [e["null"] for e in want]:
        return f"isna {isna}"
    return None


def quantities(kind, arr, shapes):
    q = {}
    q["bounds"] = np.asarray(arr.bounds, dtype="float64").reshape(-1, 4)
    q["total_bounds"] = np.asarray(arr.total_bounds, dtype="float64")
    q["length"] = np.asarray(arr.length, dtype="float64")
    q["area"] = np.asarray(arr.area, dtype="float64")
    q["isna"] = np.asarray(arr.isna())
    for b in BOXES:
        q[f"ib{b}"] = np.asarray(arr.intersects_bounds(b))
    if len(arr):
        inds = np.arange(len(arr) - 1, -1, -1)
        q["ib_inds"] = np.asarray(arr.intersects_bounds(BOXES[0], inds))
    q["hd"] = np.asarray(arr.hilbert_distance(total_bounds=(0.0, 0.0, 8.0, 8.0), p=5))
    # box intersection through the array's own (lazily built or inherited) spatial index, and the selection .cx makes with it
    q["sindex"] = np.sort(np.asarray(arr.sindex.intersects(BOXES[0]), dtype="int64"))
    q["cx_isna"] = np.asarray(arr.cx[BOXES[0][0]:BOXES[0][2], BOXES[0][1]:BOXES[0][3]].bounds, dtype="float64").reshape(-1, 4)
    if kind == "point":
        for i, sh in enumerate(shapes):
            q[f"int{i}"] = np.asarray(arr.intersects(sh))
    return q


def layout_record(kind, arr):
    """raw Arrow layout of a list-backed array + the outputs of the code's buffer accessors (integers only)"""
    if kind == "point":
        return None
    data = arr.data
    bufs = data.buffers()
    K = arr._nesting_levels
    n_slots = data.offset + len(data)
    if bufs[0] is None:
        bitmap = []
    else:
        raw = np.frombuffer(bufs[0], dtype=np.uint8)
        bitmap = [int(v) for v in raw[:(n_slots + 7) // 8]]
    offs = []
    child = data
    for level in range(K):
        b = child.buffers()[1]
        cnt = child.offset + len(child) + 1
        offs.append([int(v) for v in np.frombuffer(b, dtype=np.int32)[:cnt]] if b is not None else [0])
        if child.values.offset != 0 and level < K - 1:
            return None                       # child arrays with their own offset are outside the model (never produced here)
        child = child.values
    vals = arr.buffer_values
    if len(vals) and (not np.all(np.isfinite(vals.astype("float64"))) or not np.all(vals == np.round(vals))):
        return None
    return dict(K=K, off=int(data.offset), len=len(data), bitmap=bitmap, offs=offs, values=[int(v) for v in vals],
                flat=[int(v) for v in arr.flat_values], outer=[int(v) for v in arr.buffer_outer_offsets],
                isna=[int(v) for v in arr.isna()])


def run(tier: str, seed: int) -> int:
    import spatialpandas as sp
    chk = Check("C16", tier, seed)
    layouts = []
    chk.notes["rule"] = ("MC_GeoArray histories (source arrays of <= N catalogue elements x <= MaxOps steps over 9 operation families with "
                         "negative indices / steps, empty selections, invalid requests) replayed on all seven array types, source fresh "
                         "or cut from a larger buffer, directly or through GeoSeries; non-trivial = history whose final array is non-empty "
                         "and differs from the source, or that ends in a modelled error")
    chk.assumptions = ["'behaves like a fresh array' is judged by comparing every derived quantity with the same quantity computed on an array "
                       "freshly built from the model's expected element sequence (the quantities themselves are C01/C02/C08/C13/C14)"]
    quick = tier == "quick"
    cats = c04.catalogues()
    catname = dict(c04.CATS)
    # D level: Arrow layouts (see MC_ArrowBuf.tla)
    rb = run_tlc("MC_ArrowBuf", cfg=dict(constants=dict(MaxOff=1 if quick else 2, LongPre={6, 7, 9, 15}), invariants=["AccessorsExact"]), workers=8, timeout=3000)
    chk.add_tlc(rb)
    if rb.violated:
        chk.notes["arrowbuf_counterexample"] = rb.out[rb.out.index("Error:"):][:1500]
    jobs, plan = [], []
    for kind in geom.KINDS:
        n, ops, ns, which = (3, 2, 64, range(0, 1)) if quick else (3, 2, 16, None)
        js = shard_jobs("MC_GeoArray", dict(constants=dict(NullIx=NULLIX[kind], CatLen=4, N=n, MaxOps=ops), invariants=["NoInvention"]),
                        ns, which=which, dump=True, timeout=3000)
        plan.append((kind, len(js)))
        jobs += js
    results = run_jobs(jobs)
    chk.add_tlc(results)
    pshapes = [geom.make_array("polygon", [geom.El([[[[0, 0], [4, 0], [4, 4], [0, 4], [0, 0]]]])])[0],
               geom.make_array("line", [geom.El([[[[0, 0], [4, 4]]]])])[0]]
    off = 0
    for kind, k in plan:
        rs = results[off:off + k]
        off += k
        cat = cats[catname[kind]][:4]
        pad = (cats[catname[kind]][4:] + cats[catname[kind]])[:3]
        nst = 0
        for r in rs:
            for st in iter_dump(r.dump):
                if not st["hist"]:
                    continue
                nst += 1
                h = hash((tuple(st["src"]), repr(st["hist"])))
                src_elems = [cat[i - 1] for i in st["src"]]
                backing = h % 3
                subtype = "float64" if (h // 3) % 2 or any(geom.has_special(e) for e in src_elems + pad) else "int32"
                if backing == 0:
                    src_arr = geom.make_array(kind, src_elems, geom.IDENT, subtype)
                elif backing == 1:
                    # cut out of a larger buffer; the number of foreign elements before the window varies so that the window
                    # also straddles byte boundaries of the validity bitmap
                    k = [2, 6, 7, 13][(h // 12) % 4]
                    before = [(pad + [geom.NULL])[i % 4] for i in range(k)]
                    src_arr = geom.make_array(kind, before + src_elems + pad[:2], geom.IDENT, subtype)[k:k + len(src_elems)]
                else:
                    big = geom.make_array(kind, pad[:1] + src_elems, geom.IDENT, subtype)
                    src_arr = type(big)._concat_same_type([big[1:1], big[1:]])
                via_series = bool((h // 6) % 2)
                if (h // 24) % 2 == 0 and len(src_arr):
                    src_arr.sindex  # noqa: B018   history: the source already carries a spatial index when the derivations start
                arr = src_arr
                cur = list(st["src"])
                desc = [f"{type(src_arr).__name__}[{subtype}] source {[geom.to_py(kind, e) for e in src_elems]} (backing {['fresh', 'slice of a larger array', 'concat'][backing]}"
                        f"{', through GeoSeries' if via_series else ''})"]
                failed = False
                # recompute the model's intermediate sequences by re-running the ADT is not needed: the dump holds every prefix as
                # its own state; here only the final state's `cur` / `last` are checked, prefixes are checked when they are final
                for j, hstep in enumerate(st["hist"]):
                    last_step = j == len(st["hist"]) - 1
                    desc.append(f"{hstep['op']}{tuple(none(a) for a in hstep['args'])}")
                    try:
                        res = apply_op(kind, arr, src_arr, hstep["op"], hstep["args"], via_series)
                    except Exception as ex:  # noqa: BLE001
                        if last_step and not st["last"]["ok"]:
                            if type(ex).__name__ != st["last"]["err"]:
                                chk.violation(f"{kind}|errclass|{hstep['op']}|{st['last']['err']}", " ; ".join(desc) + f"\n  raised {type(ex).__name__}: {ex}; "
                                              f"pandas expects {st['last']['err']}", "# " + " ; ".join(desc), ctx=dict(site=f"{kind}.{hstep['op']}", mode="errclass"))
                        else:
                            chk.violation(f"{kind}|raises|{hstep['op']}|{type(ex).__name__}", " ; ".join(desc) + f"\n  raised {type(ex).__name__}: {ex} (the model says the request is valid)",
                                          "# " + " ; ".join(desc), ctx=dict(site=f"{kind}.{hstep['op']}", mode="raises"))
                        failed = True
                        break
                    if last_step and not st["last"]["ok"]:
                        chk.violation(f"{kind}|noerror|{hstep['op']}|{st['last']['err']}", " ; ".join(desc) + f"\n  did not raise; pandas expects {st['last']['err']}",
                                      "# " + " ; ".join(desc), ctx=dict(site=f"{kind}.{hstep['op']}", mode="noerror"))
                        failed = True
                        break
                    if hstep["op"] == "getitem":
                        if last_step:
                            want = cat[st["last"]["seq"][0] - 1]
                            got = geom.from_scalar(kind, res)
                            if geom.canon(kind, got) != geom.canon(kind, want):
                                chk.violation(f"{kind}|getitem", " ; ".join(desc) + f"\n  -> {geom.canon(kind, got)}, expected {geom.canon(kind, want)}",
                                              "# " + " ; ".join(desc), ctx=dict(site=f"{kind}.getitem", mode="element"))
                        continue
                    arr = res
                chk.count()
                if failed or st["hist"][-1]["op"] == "getitem" or not st["last"]["ok"]:
                    if not st["last"]["ok"]:
                        chk.nontrivial_n += 1
                    continue
                want_elems = [cat[i - 1] for i in st["cur"]]
                if type(arr).__name__ != type(src_arr).__name__:
                    chk.violation(f"{kind}|type", " ; ".join(desc) + f"\n  result type {type(arr).__name__}", "# " + " ; ".join(desc), ctx=dict(site=kind, mode="type"))
                    continue
                why = elements_ok(kind, arr, want_elems)
                if why:
                    chk.violation(f"{kind}|elements|{st['hist'][-1]['op']}", " ; ".join(desc) + f"\n  {why}", "# " + " ; ".join(desc),
                                  ctx=dict(site=f"{kind}.{st['hist'][-1]['op']}", mode="elements"))
                    continue
                if want_elems and st["cur"] != st["src"]:
                    chk.nontrivial_n += 1
                if nst % 7 == 0 and len(layouts) < (1500 if quick else 20000):
                    rec = layout_record(kind, arr)
                    if rec is not None:
                        layouts.append(rec)
                fresh = geom.make_array(kind, want_elems, geom.IDENT, subtype)
                qa, qf = quantities(kind, arr, pshapes), quantities(kind, fresh, pshapes)
                for name in qf:
                    if not np.array_equal(qa[name], qf[name], equal_nan=True):
                        chk.violation(f"{kind}|quantity|{name.split('(')[0]}|{st['hist'][-1]['op']}", " ; ".join(desc) + f"\n  {name} on the derived array = {qa[name].tolist()}, "
                                      f"on a fresh array of the same elements = {qf[name].tolist()}", "# " + " ; ".join(desc),
                                      ctx=dict(site=f"{kind}.{name.split('(')[0]}", mode="quantity", op=st["hist"][-1]["op"]))
                        break
                if len(arr) and not np.array_equal(arr == fresh, np.ones(len(arr), dtype=bool) & ~np.zeros(len(arr), dtype=bool)):
                    eq = arr == fresh
                    want_eq = np.ones(len(arr), dtype=bool)
                    if not np.array_equal(eq, want_eq):
                        chk.violation(f"{kind}|eq", " ; ".join(desc) + f"\n  derived == fresh gives {eq.tolist()}", "# " + " ; ".join(desc), ctx=dict(site=f"{kind}.__eq__", mode="eq"))
                if nst == 40:
                    chk.sample({"kind": kind, "source": st["src"], "history": [dict(op=x["op"], args=[none(a) for a in x["args"]]) for x in st["hist"]],
                                "expected_sequence": st["cur"], "last": st["last"]})
    chk.exhaustive = True
    # code -> spec: real layouts against ArrowBuf
    from .tlc import validate_trace
    verdicts, tres = validate_trace("Trace_ArrowBuf", layouts, timeout=3000)
    chk.add_tlc(tres)
    chk.traces += len(layouts)
    tally = {}
    for rec, st in verdicts:
        v = st["verdict"]
        tally[v] = tally.get(v, 0) + 1
        if v in ("mismatch", "departs"):
            chk.violation(f"layout|{v}|{rec['K']}|{rec['off']}", f"Trace_ArrowBuf verdict '{v}' for the layout of a derived array: {rec}"[:2500], f"# {rec!r}"[:5000],
                          ctx=dict(site="buffer accessors", mode=v))
    chk.notes["layout_verdicts"] = tally
    if rb.violated and not chk.violations:
        raise MachineryError("MC_ArrowBuf: AccessorsExact violated but the code behaves like the model on every replayed history: "
                             "ArrowBuf.tla mis-describes the accessors\n" + chk.notes["arrowbuf_counterexample"])
    return chk.finish()
