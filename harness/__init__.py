"""Model-based verification harness for holoviz/spatialpandas (see /verif/DESIGN.md)."""
