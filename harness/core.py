"""Shared plumbing of the checks: result object, violations, known findings, replay files, evidence."""
from __future__ import annotations

import hashlib
import json
import os
import random
import sys
import time

VERIF = os.path.dirname(os.path.dirname(os.path.abspath(__file__)))
# (VERIF_EVIDENCE_DIR: set only by tools/try_seed_wt.sh, so that trying a seeded change does not overwrite the committed evidence)
REPLAYS = os.path.join(os.environ.get("VERIF_EVIDENCE_DIR") or VERIF, "replays")
EVIDENCE = os.path.join(os.environ["VERIF_EVIDENCE_DIR"], "evidence") if os.environ.get("VERIF_EVIDENCE_DIR") else os.path.join(VERIF, "evidence")
FINDINGS_FILE = os.path.join(VERIF, "known_findings.json")


def load_findings():
    with open(FINDINGS_FILE) as f:
        return json.load(f)["findings"]


class Check:
    """One run of one property's check."""

    def __init__(self, pid: str, tier: str, seed: int, level: str = "model_checking"):
        self.pid = pid
        self.tier = tier
        self.seed = seed
        self.level = level
        self.t0 = time.time()
        self.rng = random.Random(seed * 1000003 + int(hashlib.sha1(pid.encode()).hexdigest()[:8], 16))
        self.violations = []          # (key, message, replay_path)
        self.known_hits = {}          # finding id -> count
        self.evaluations = 0
        self.states = 0
        self.transitions = 0
        self.traces = 0
        self.nontrivial = set()
        self.nontrivial_n = 0         # cases counted non-trivial that are distinct by construction
        self.samples = []
        self.assumptions = []
        self.notes = {}
        self.checker_cmds = []
        self.exhaustive = False
        self.findings = [f for f in load_findings() if f["property"] == pid and f["status"] == "known"]
        self._seen_violation_keys = set()
        os.makedirs(REPLAYS, exist_ok=True)

    # ---- counting -------------------------------------------------------------------------
    def add_tlc(self, results):
        if not isinstance(results, (list, tuple)):
            results = [results]
        for r in results:
            self.states += r.distinct
            self.transitions += r.generated
            if getattr(r, "cmd", None) and len(self.checker_cmds) < 6:
                self.checker_cmds.append(r.cmd)

    def budget(self, name, limit):
        """True for the first `limit` calls with this name (expensive optional stages)"""
        k = self.notes.get("budget_" + name, 0)
        if k >= limit:
            return False
        self.notes["budget_" + name] = k + 1
        return True

    def count(self, n=1):
        self.evaluations += n

    def nontrivial_case(self, key):
        if len(self.nontrivial) < 5_000_000:
            self.nontrivial.add(key if isinstance(key, (int, str)) else hash(key))

    def sample(self, obj, limit=6):
        if len(self.samples) < limit:
            self.samples.append(obj)

    # ---- verdicts -------------------------------------------------------------------------
    def violation(self, key: str, message: str, replay_text: str, ctx: dict | None = None):
        """Report a failure of the property.  `ctx` classifies the failure (site, input class, mode)
        for the matchers of known_findings.json; an unmatched failure is a VIOLATION."""
        from . import findings as F
        ctx = ctx or {}
        for f in self.findings:
            if F.matches(f, ctx):
                self.known_hits[f["id"]] = self.known_hits.get(f["id"], 0) + 1
                return False
        if key in self._seen_violation_keys:
            return True
        self._seen_violation_keys.add(key)
        if len(self.violations) >= 25:
            return True
        name = f"{self.pid}_{hashlib.sha1((key + message).encode()).hexdigest()[:10]}.py"
        path = os.path.join(REPLAYS, name)
        with open(path, "w") as f:
            f.write(f'"""Replay for a violation of {self.pid} found by /verif/check {self.pid}.\n{message}\n"""\n')
            f.write(replay_text if replay_text.endswith("\n") else replay_text + "\n")
        self.violations.append((key, message, path))
        print(f"VIOLATION property={self.pid} replay={path}")
        print("  " + message.replace("\n", "\n  ")[:1500])
        sys.stdout.flush()
        return True

    def finish(self) -> int:
        for f in self.findings:
            if f["id"] in self.known_hits:
                print(f"KNOWN-FINDING: property={self.pid} {f['site']}: {f['effect']} "
                      f"[{f['id']}, seen {self.known_hits[f['id']]}x this run]")
        wall = time.time() - self.t0
        cov = {
            "states": self.states,
            "transitions": self.transitions,
            "traces_validated_against_impl": self.traces,
            "evaluations": self.evaluations,
            "distinct_nontrivial": len(self.nontrivial) + self.nontrivial_n,
            "rule": self.notes.pop("rule", ""),
            "samples": self.samples or [{"note": "no sample recorded"}],
            "exhaustive": self.exhaustive,
            "checker_cmd": " ;; ".join(self.checker_cmds[:3]),
            "known_findings_seen": self.known_hits,
        }
        cov.update(self.notes)
        ev = {
            "property_id": self.pid,
            "tier": self.tier,
            "seed": self.seed,
            "level": self.level,
            "coverage": cov,
            "assumptions": self.assumptions,
            "wall_s": round(wall, 2),
            "violations": len(self.violations),
        }
        os.makedirs(EVIDENCE, exist_ok=True)
        tmp = os.path.join(EVIDENCE, f".{self.pid}.json.tmp")
        with open(tmp, "w") as f:
            json.dump(ev, f, indent=1, default=str)
        os.replace(tmp, os.path.join(EVIDENCE, f"{self.pid}.json"))
        print(f"[{self.pid}] tier={self.tier} seed={self.seed} states={self.states} transitions={self.transitions} "
              f"traces={self.traces} evaluations={self.evaluations} nontrivial={len(self.nontrivial) + self.nontrivial_n} "
              f"violations={len(self.violations)} known={sum(self.known_hits.values())} wall={wall:.1f}s")
        return 1 if self.violations else 0
