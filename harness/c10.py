"""C10 - pack_partitions_to_parquet leaves a complete, clean, re-readable dataset.

design       : PackFS (no faults) - every interleaving of the proc / cat tasks, every assignment of rows to output partitions (all
               emptiness patterns), the three temporary-directory modes, with / without a previous dataset and overwrite: CleanFinal,
               NoSharedWrites, Returns.
code -> spec : real runs (recording filesystem) over mode x npartitions x previous dataset / overwrite x compression; every recorded
               execution must be ACCEPTED by Trace_PackFS: each protocol call is exactly the call the model expects next from that
               task, every logged answer is the model filesystem's answer, the final directory tree equals the model's final state.
direct       : nothing left at any temporary location; the returned frame and an independent read_parquet_dask both hold exactly
               the input rows, Hilbert-ordered with contiguous non-empty partitions (judged by Trace_Pack / Pack!PackOK)."""
from __future__ import annotations

import os
import shutil

import numpy as np

from . import geom, packfs
from .core import Check
from .packfs import Cfg
from .tlc import MachineryError, run_jobs, validate_trace


def model_jobs(quick):
    jobs = []
    base = dict(NIn=2, NOut=3, Mode="inside", Overwrite=False, PrevParts=0, MaxFaults=0, RetryMax=3, FixEmptyPlaceholder=True, AllowRerun=False)
    variants = [dict(), dict(Mode="outside_uuid"), dict(Mode="outside_fixed"), dict(Overwrite=True, PrevParts=4), dict(Overwrite=True, PrevParts=2, Mode="outside_uuid"),
                dict(Overwrite=False, PrevParts=2)]
    if not quick:
        variants += [dict(NOut=4), dict(NOut=4, Mode="outside_uuid"), dict(NIn=3, NOut=2), dict(NIn=3, NOut=3, Mode="outside_fixed"), dict(Overwrite=True, PrevParts=4, NOut=2)]
    for v in variants:
        c = dict(base)
        c.update(v)
        jobs.append(dict(module="PackFS", cfg=dict(spec="Spec", constants=c, invariants=["CleanFinal", "NoSharedWrites", "Returns"]), workers=4, timeout=3000,
                         heap="4g", name="packfs"))
    # vacuity guard: the design before the placeholder fix MUST fail
    c = dict(base, Mode="outside_uuid", FixEmptyPlaceholder=False)
    jobs.append(dict(module="PackFS", cfg=dict(spec="Spec", constants=c, invariants=["CleanFinal", "Returns"]), workers=4, timeout=3000, heap="4g", name="packfs-dev"))
    return jobs


def run(tier: str, seed: int) -> int:
    chk = Check("C10", tier, seed)
    quick = tier == "quick"
    chk.notes["rule"] = ("model: PackFS state graphs (2-3 input x 2-4 output partitions, every row assignment, 3 temp modes, previous dataset / overwrite); "
                         "runs: mode x npartitions in {1,2,3,5,9,(16)} x {fresh, previous larger dataset + overwrite, previous smaller + overwrite} x compression, "
                         "each recorded execution validated by Trace_PackFS and its read-back judged by Trace_Pack; non-trivial = run with at least one "
                         "empty output partition or a previous dataset")
    chk.assumptions = ["temporary locations are placed directly under a pre-existing scratch directory (implicitly created parents of a user-supplied "
                       "tempdir_format are not counted against the code)", "local-filesystem semantics as observed (move into an existing directory, open needs the parent)"]
    results = run_jobs(model_jobs(quick), parallel=4)
    chk.add_tlc(results)
    for r in results[:-1]:
        if r.violated:
            chk.notes["design_counterexample"] = r.out[r.out.index("Error:"):][:1500]
    if not results[-1].violated:
        raise MachineryError("PackFS with FixEmptyPlaceholder = FALSE passes: the model is not sensitive to the placeholder defect (vacuous)")
    chk.notes["deviation_model_fails_as_expected"] = results[-1].violated
    runs = []
    nouts = [1, 2, 3, 5, 9] if quick else [1, 2, 3, 4, 5, 7, 9, 12, 16]
    for mode in ("inside", "outside_uuid", "outside_fixed"):
        for j, nout in enumerate(nouts):
            for ow, prev in (((False, 0),) if (quick and (j + len(mode)) % 3) else ((False, 0), (True, 4), (True, 1))):
                comp = ["snappy", "gzip", None][(j + prev) % 3]
                cfg = Cfg(n=8 if nout < 9 else 12, nin=2 if nout != 5 else 3, nout=nout, mode=mode, overwrite=ow, prev=prev, compression=comp, seed=seed + j)
                r = packfs.run_pack(cfg)
                chk.count()
                if r.status != "returned":
                    chk.violation(f"raises|{cfg.key()}", f"pack_partitions_to_parquet raised without any fault: {getattr(r, 'error', '')}; {cfg}\n  final tree {r.tree}",
                                  f"# {cfg}", ctx=dict(site="pack_partitions_to_parquet", mode="raises", tempmode=mode))
                    continue
                runs.append(r)
    # more than ten non-empty output partitions (part.10 sorts before part.2 as a string)
    for mode in (("inside",) if quick else ("inside", "outside_uuid")):
        cfg = Cfg(n=40, nin=2, nout=12, mode=mode, seed=seed + 77)
        r = packfs.run_pack(cfg)
        chk.count()
        if r.status != "returned":
            chk.violation(f"raises|{cfg.key()}", f"pack_partitions_to_parquet raised without any fault: {getattr(r, 'error', '')}; {cfg}", f"# {cfg}",
                          ctx=dict(site="pack_partitions_to_parquet", mode="raises", tempmode=mode))
        else:
            runs.append(r)
    # more than ten INPUT partitions feeding one output partition (sub-part names part2 / part10 sort differently as strings)
    for mode in (("outside_uuid",) if quick else ("inside", "outside_uuid")):
        cfg = Cfg(n=40, nin=12, nout=3, mode=mode, seed=seed + 78)
        r = packfs.run_pack(cfg)
        chk.count()
        if r.status != "returned":
            chk.violation(f"raises|{cfg.key()}", f"pack_partitions_to_parquet raised without any fault: {getattr(r, 'error', '')}; {cfg}", f"# {cfg}",
                          ctx=dict(site="pack_partitions_to_parquet", mode="raises", tempmode=mode))
        else:
            runs.append(r)
    # few distinct sites: empty output partitions BETWEEN non-empty ones in dense patterns ([F,E,F,F], [F,E,E,F,F,..]): the renumbering
    # step moves several parts, and a part's final name can be the original name of a later part
    dups = [(8, 4, 2), (9, 6, 3), (10, 7, 3), (8, 5, 2), (12, 6, 4), (9, 4, 3)]
    for mi, mode in enumerate(("inside", "outside_uuid", "outside_fixed")):
        for di, (n_, nout, dup) in enumerate(dups):
            if quick and (di + mi) % 3:
                continue
            cfg = Cfg(n=n_, nin=2, nout=nout, mode=mode, seed=seed + 31 + di, dup=dup)
            r = packfs.run_pack(cfg)
            chk.count()
            if r.status != "returned":
                chk.violation(f"raises|{cfg.key()}", f"pack_partitions_to_parquet raised without any fault: {getattr(r, 'error', '')}; {cfg}", f"# {cfg}",
                              ctx=dict(site="pack_partitions_to_parquet", mode="raises", tempmode=mode))
            else:
                runs.append(r)
                occ = sorted({k for part in packfs.reference_assign(r) for k in part})
                chk.notes.setdefault("dup_occupancy", []).append(f"{nout}:{occ}")
    # history: the input frame was packed before (it is indexed by hilbert_distance), then its Hilbert order changed - rows were filtered
    # away / another geometry column was made active - and it is packed to parquet: the stored rows are in the NEW Hilbert order
    import dask
    import dask.dataframe as dd
    from spatialpandas.io import read_parquet_dask
    import tempfile
    hroot = tempfile.mkdtemp(prefix="c10h-", dir=os.environ.get("TMPDIR") or "/var/tmp")
    try:
        with dask.config.set(scheduler="synchronous"):
            hdf, _ = packfs.make_frame(24, seed + 91)
            for hi, (label, change) in enumerate((("filtered", lambda f: f[f["id"] > 9]), ("other geometry", lambda f: f.set_geometry("other")))):
                packed = dd.from_pandas(hdf, npartitions=3).pack_partitions(npartitions=2, p=7)
                packed.partition_sindex  # noqa: B018   (the frame's partition bounds are cached before it is changed)
                _ = packed.cx[0:1, 0:1]
                src = change(packed)
                path = os.path.join(hroot, f"h{hi}.parq")
                ret = src.pack_partitions_to_parquet(path, npartitions=3, p=5, _retry_args=packfs.RETRY)
                chk.count()
                for what, fr in (("returned frame", ret), ("independent read", read_parquet_dask(path, geometry=src.geometry.name))):
                    pdf = src.compute()
                    col = pdf[src.geometry.name].array
                    want = dict(zip(pdf["id"], col.hilbert_distance(total_bounds=col.total_bounds, p=5)))
                    for k in range(fr.npartitions):
                        part = fr.get_partition(k).compute()
                        keys = [int(v) for v in part.index]
                        if keys != sorted(keys) or any(int(want[i]) != kv for i, kv in zip(part["id"], keys)):
                            chk.violation(f"history|{label}", f"pack_partitions_to_parquet of a frame that was packed before and then changed ({label}): {what}, partition {k} holds "
                                          f"(id, key) {list(zip(map(int, part['id']), keys))}; keys must be the rows' distances {[(int(i), int(want[i])) for i in part['id']]} in "
                                          f"non-decreasing order", "", ctx=dict(site="pack_partitions_to_parquet", mode="history"))
                            break
    finally:
        shutil.rmtree(hroot, ignore_errors=True)
    items = [(r, packfs.reference_assign(r), None) for r in runs]
    verdicts = packfs.validate_runs(items)
    recs, meta = [], []
    for r, (v, detail, res) in zip(runs, verdicts):
        cfg = r.cfg
        if res is not None:
            chk.add_tlc(res)
        chk.traces += 1
        if v != "accepted":
            chk.violation(f"trace|{v}|{cfg.mode}|{cfg.nout}", f"recorded execution not accepted by Trace_PackFS ({v}): {cfg}\n  {detail}\n  final tree {sorted(r.tree)}"[:3000],
                          f"# {cfg}", ctx=dict(site="pack_partitions_to_parquet", mode=v, tempmode=cfg.mode))
            continue
        # nothing left at temporary locations, nothing unexpected in the dataset
        m = len(r.readback) if r.readback is not None else -1
        want_tree = {"ds.parq": "dir", "scratch": "dir", "ds.parq/_metadata": "file", "ds.parq/_common_metadata": "file"}
        want_tree.update({f"ds.parq/part.{j}.parquet": "file" for j in range(m)})
        if r.tree != want_tree:
            chk.violation(f"tree|{cfg.mode}|{cfg.nout}", f"final directory tree {sorted(r.tree.items())} differs from {sorted(want_tree.items())}; {cfg}", f"# {cfg}",
                          ctx=dict(site="pack_partitions_to_parquet", mode="tree", tempmode=cfg.mode))
            continue
        if r.readback is None:
            chk.violation(f"readback|{cfg.mode}", f"independent read_parquet_dask failed: {getattr(r, 'readback_error', '')}; {cfg}", f"# {cfg}", ctx=dict(site="read_parquet_dask"))
            continue
        same = len(r.returned) == len(r.readback) and all(a.equals(b) for a, b in zip(r.returned, r.readback))
        if not same:
            chk.violation(f"returned|{cfg.mode}", f"the returned frame differs from an independent read of the path; {cfg}", f"# {cfg}", ctx=dict(site="pack_partitions_to_parquet", mode="returned"))
        if any(len(p) == 0 for p in r.readback):
            chk.violation(f"emptypart|{cfg.mode}", f"an empty partition is numbered among the parts: sizes {[len(p) for p in r.readback]}; {cfg}", f"# {cfg}",
                          ctx=dict(site="pack_partitions_to_parquet", mode="contiguous"))
        # whole rows
        import pandas as pd
        allrows = pd.concat(r.readback).reset_index(drop=True).sort_values("id")
        okrows = list(allrows["id"]) == list(r.df["id"]) and \
            [geom.canon("point", e) for e in geom.from_array("point", allrows["geometry"].array)] == [geom.canon("point", e) for e in r.els] and \
            [geom.canon("line", e) for e in geom.from_array("line", allrows["other"].array)] == [geom.canon("line", e) for e in geom.from_array("line", r.df["other"].array)]
        if not okrows:
            chk.violation(f"rows|{cfg.mode}", f"the dataset does not hold exactly the input rows: ids {list(allrows['id'])}; {cfg}", f"# {cfg}", ctx=dict(site="pack_partitions_to_parquet", mode="rows"))
            continue
        recs.append(packfs.pack_record(r, r.readback))
        meta.append(cfg)
        if m < cfg.nout or cfg.prev:
            chk.nontrivial_case(cfg.key() + str(cfg.compression))
    pv, tres = validate_trace("Trace_Pack", recs, timeout=3000)
    chk.add_tlc(tres)
    for (rec, st), cfg in zip(pv, meta):
        # the number of partitions on disk is the number of non-empty ones: compare order / keys / permutation only
        if st["verdict"] not in ("ok",):
            chk.violation(f"order|{st['verdict']}|{cfg.mode}", f"read-back dataset violates Pack!PackOK ({st['verdict']}): {cfg}\n  {rec['parts']}"[:2500], f"# {cfg}",
                          ctx=dict(site="pack_partitions_to_parquet", mode=st["verdict"]))
    if runs:
        r = runs[len(runs) // 2]
        chk.sample({"config": repr(r.cfg), "protocol_calls": [f"{e['task']} {e['origin']} {e['op']} {e['path']}" for e in r.events if e["origin"] in packfs.PROTOCOL_ORIGINS][:25],
                    "final_tree": sorted(r.tree)})
    if "design_counterexample" in chk.notes and not chk.violations:
        raise MachineryError("PackFS violates its invariants but every real run is clean and accepted: the model mis-describes the protocol\n" + chk.notes["design_counterexample"])
    chk.exhaustive = True
    return chk.finish()
