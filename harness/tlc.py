"""Run TLC on the modules of /verif/spec: scratch directories, generated cfg files, shards, statistics."""
from __future__ import annotations

import atexit
import concurrent.futures as cf
import os
import re
import shutil
import subprocess
import tempfile
import time

VERIF = os.path.dirname(os.path.dirname(os.path.abspath(__file__)))
SPEC = os.path.join(VERIF, "spec")
JARS = "/opt/veriftools/tla/tla2tools.jar:/opt/veriftools/tla/CommunityModules-deps.jar"

_scratch_root = None


class MachineryError(Exception):
    """TLC crashed, timed out, or printed something the harness cannot interpret (exit code 2)."""


def scratch_root() -> str:
    global _scratch_root
    if _scratch_root is None:
        base = os.environ.get("VERIF_SCRATCH") or os.environ.get("TMPDIR") or "/var/tmp"
        os.makedirs(base, exist_ok=True)
        _scratch_root = tempfile.mkdtemp(prefix="spverif-", dir=base)
        atexit.register(shutil.rmtree, _scratch_root, True)
    return _scratch_root


def scratch(name: str) -> str:
    d = tempfile.mkdtemp(prefix=name + "-", dir=scratch_root())
    return d


def tla_value(v) -> str:
    """Python value -> TLA+ expression usable as a cfg constant."""
    if isinstance(v, bool):
        return "TRUE" if v else "FALSE"
    if isinstance(v, int):
        return str(v)
    if isinstance(v, str):
        return '"' + v + '"'
    if isinstance(v, (list, tuple)):
        return "<<" + ", ".join(tla_value(x) for x in v) + ">>"
    if isinstance(v, (set, frozenset)):
        return "{" + ", ".join(tla_value(x) for x in sorted(v)) + "}"
    if isinstance(v, dict):
        return "[" + ", ".join(f"{k} |-> {tla_value(x)}" for k, x in v.items()) + "]"
    raise TypeError(v)


class TlcResult:
    def __init__(self, rc, out, wall, workdir, dump=None):
        self.rc = rc
        self.out = out
        self.wall = wall
        self.workdir = workdir
        self.dump = dump
        m = re.search(r"(\d+) states generated, (\d+) distinct states found", out)
        self.generated = int(m.group(1)) if m else 0
        self.distinct = int(m.group(2)) if m else 0
        m = re.search(r"depth of the complete state graph search is (\d+)", out)
        self.depth = int(m.group(1)) if m else 0
        self.violated = re.findall(r"Error: Invariant (\w+) is violated", out)
        self.violated += re.findall(r"Error: Action property (\w+) is violated", out)
        if "Temporal properties were violated" in out:
            self.violated.append("temporal")
        if "Deadlock reached" in out:
            self.violated.append("Deadlock")
        self.postcondition_failed = "violated postcondition" in out.lower() or bool(
            re.search(r"Error: .*[Pp]ost ?condition", out))

    @property
    def ok(self):
        return self.rc == 0 and not self.violated

    @property
    def crashed(self):
        """TLC ended for a reason other than 'no error' or 'a property is violated'."""
        if self.rc == 0:
            return False
        if self.violated and self.rc in (10, 11, 12, 13):
            return False
        if self.postcondition_failed:
            return False
        return True

    def printed(self):
        """Values printed by PrintT / Print, as raw text chunks (one per print), in order."""
        return extract_prints(self.out)

    def states_of_counterexample(self):
        """Counterexample as list of (header, state-text)."""
        res = []
        cur = None
        for line in self.out.splitlines():
            m = re.match(r"State (\d+): (.*)", line)
            if m:
                cur = [m.group(2), []]
                res.append(cur)
            elif cur is not None:
                if line.startswith("/\\") or line.startswith("  ") or line.startswith(" "):
                    cur[1].append(line)
                elif line.strip() == "":
                    cur = None
        return [(h, "\n".join(t)) for h, t in res]


def extract_prints(out: str):
    """Split TLC stdout into the top-level values printed by PrintT (bracket matching, so that the
    line-wrapped pretty printing of big values is handled)."""
    chunks = []
    lines = out.splitlines()
    i = 0
    while i < len(lines):
        line = lines[i]
        if line.startswith("<<") or line.startswith('"') or line.startswith("["):
            buf = [line]
            depth = _depth(line)
            while depth > 0 and i + 1 < len(lines):
                i += 1
                buf.append(lines[i])
                depth += _depth(lines[i])
            chunks.append("\n".join(buf))
        i += 1
    return chunks


def _depth(s: str) -> int:
    d = 0
    instr = False
    i = 0
    while i < len(s):
        c = s[i]
        if instr:
            if c == "\\":
                i += 1
            elif c == '"':
                instr = False
        else:
            if c == '"':
                instr = True
            elif s.startswith("<<", i):
                d += 1
                i += 1
            elif s.startswith(">>", i):
                d -= 1
                i += 1
            elif c in "[{(":
                d += 1
            elif c in "]})":
                d -= 1
        i += 1
    return d


def write_cfg(path, *, spec=None, init="Init", next_="Next", constants=None, invariants=(),
              properties=(), constraints=(), action_constraints=(), view=None, postcondition=None,
              check_deadlock=False, symmetry=None):
    lines = []
    if spec:
        lines.append(f"SPECIFICATION {spec}")
    else:
        lines.append(f"INIT {init}")
        lines.append(f"NEXT {next_}")
    if constants:
        lines.append("CONSTANTS")
        for k, v in constants.items():
            if isinstance(v, str) and v.startswith("<-"):
                lines.append(f"  {k} {v}")
            else:
                lines.append(f"  {k} = {tla_value(v) if not isinstance(v, RawTla) else v.text}")
    for inv in invariants:
        lines.append(f"INVARIANT {inv}")
    for p in properties:
        lines.append(f"PROPERTY {p}")
    for c in constraints:
        lines.append(f"CONSTRAINT {c}")
    for c in action_constraints:
        lines.append(f"ACTION_CONSTRAINT {c}")
    if view:
        lines.append(f"VIEW {view}")
    if symmetry:
        lines.append(f"SYMMETRY {symmetry}")
    if postcondition:
        lines.append(f"POSTCONDITION {postcondition}")
    lines.append(f"CHECK_DEADLOCK {'TRUE' if check_deadlock else 'FALSE'}")
    with open(path, "w") as f:
        f.write("\n".join(lines) + "\n")


class RawTla:
    def __init__(self, text):
        self.text = text


def run_tlc(module: str, cfg_path: str | None = None, *, cfg: dict | None = None, workers: int = 1,
            timeout: int = 3000, dump: bool = False, simulate: str | None = None, depth: int | None = None,
            seed: int | None = None, env: dict | None = None, extra: list[str] | None = None,
            heap: str = "3g", continue_: bool = False, coverage: bool = False, dfs: bool = False,
            name: str | None = None) -> TlcResult:
    """Run TLC on /verif/spec/<module>.tla. Either an existing cfg (path relative to /verif/spec) or a
    dict for write_cfg()."""
    wd = scratch(name or module)
    if cfg is not None:
        cfg_file = os.path.join(wd, module + ".cfg")
        write_cfg(cfg_file, **cfg)
    else:
        cfg_file = cfg_path if os.path.isabs(cfg_path) else os.path.join(SPEC, cfg_path)
    cmd = ["java", "-XX:+UseParallelGC", "-Xss64m", f"-Xmx{heap}", f"-Djava.io.tmpdir={wd}",
           f"-DTLA-Library={SPEC}"]
    if dfs:
        cmd.append("-Dtlc2.tool.queue.IStateQueue=StateDeque")
    cmd += ["-cp", JARS, "tlc2.TLC", "-workers", str(workers), "-metadir", os.path.join(wd, "meta"),
            "-noGenerateSpecTE", "-config", cfg_file]
    dump_path = None
    if dump:
        dump_path = os.path.join(wd, "states")
        cmd += ["-dump", dump_path]
        dump_path += ".dump"
    if simulate is not None:
        cmd += ["-simulate", simulate] if simulate else ["-simulate"]
    if depth is not None:
        cmd += ["-depth", str(depth)]
    if seed is not None:
        cmd += ["-seed", str(seed)]
    if continue_:
        cmd.append("-continue")
    if coverage:
        cmd += ["-coverage", "1"]
    if extra:
        cmd += extra
    cmd.append(os.path.join(SPEC, module + ".tla"))
    e = dict(os.environ)
    e.pop("JAVA_TOOL_OPTIONS", None)
    if env:
        e.update({k: str(v) for k, v in env.items()})
    t0 = time.time()
    try:
        p = subprocess.run(cmd, cwd=wd, env=e, stdout=subprocess.PIPE, stderr=subprocess.STDOUT,
                           timeout=timeout, text=True)
    except subprocess.TimeoutExpired as ex:
        raise MachineryError(f"TLC timeout after {timeout}s: {module} ({cfg_file})") from ex
    res = TlcResult(p.returncode, p.stdout, time.time() - t0, wd, dump_path)
    res.cmd = " ".join(cmd)
    if res.crashed:
        tail = "\n".join(p.stdout.splitlines()[-40:])
        raise MachineryError(f"TLC failed rc={p.returncode}: {module} ({cfg_file})\n{tail}")
    return res


def run_shards(module: str, cfg: dict, nshards: int, *, shard_const="Shard", nshards_const="NShards",
               parallel: int = 16, **kw) -> list[TlcResult]:
    """Run the same model nshards times with constants Shard = 0..nshards-1 (enumeration-heavy
    models compute their initial states on one worker, so parallelism comes from processes)."""
    def one(s):
        c = dict(cfg)
        consts = dict(c.get("constants") or {})
        consts[shard_const] = s
        consts[nshards_const] = nshards
        c["constants"] = consts
        return run_tlc(module, cfg=c, name=f"{module}-s{s}", **kw)
    with cf.ThreadPoolExecutor(max_workers=parallel) as ex:
        return list(ex.map(one, range(nshards)))


def sany(module: str) -> tuple[bool, str]:
    wd = scratch("sany")
    p = subprocess.run(["java", f"-Djava.io.tmpdir={wd}", f"-DTLA-Library={SPEC}", "-cp", JARS,
                        "tla2sany.SANY", os.path.join(SPEC, module + ".tla")],
                       cwd=wd, stdout=subprocess.PIPE, stderr=subprocess.STDOUT, text=True)
    ok = p.returncode == 0 and "*** Errors" not in p.stdout and "Fatal errors" not in p.stdout
    return ok, p.stdout


def run_jobs(jobs: list[dict], parallel: int = 16) -> list[TlcResult]:
    """Run several TLC jobs (dicts of run_tlc keyword arguments incl. 'module') in a process pool."""
    def one(j):
        j = dict(j)
        mod = j.pop("module")
        try:
            return run_tlc(mod, **j)
        except MachineryError as ex:
            if "TLC failed rc=-9" in str(ex) or "TLC failed rc=137" in str(ex):
                return None               # killed from outside (memory pressure while 16 JVMs run side by side): retried alone below
            raise
    with cf.ThreadPoolExecutor(max_workers=parallel) as ex:
        out = list(ex.map(one, jobs))
    for i, r in enumerate(out):
        if r is None:
            j = dict(jobs[i])
            mod = j.pop("module")
            out[i] = run_tlc(mod, **j)    # a second kill is a machinery failure (exit 2)
    return out


def shard_jobs(module: str, cfg: dict, nshards: int, which=None, shard_const="Shard",
               nshards_const="NShards", **kw) -> list[dict]:
    jobs = []
    for s in (which if which is not None else range(nshards)):
        c = dict(cfg)
        consts = dict(c.get("constants") or {})
        consts[shard_const] = s
        consts[nshards_const] = nshards
        c["constants"] = consts
        jobs.append(dict(module=module, cfg=c, name=f"{module}-s{s}", **kw))
    return jobs


def validate_trace(module: str, records: list[dict], *, nshards: int = 16, cfg: dict | None = None,
                   timeout: int = 3000, env: dict | None = None) -> list[tuple[dict, dict]]:
    """code -> spec for independent records: write the records as ndjson shards, let TLC evaluate the
    trace module on every record (one initial state per record, the verdict is a state variable)
    and return [(record, state)] in input order, state = the dumped TLC state (l, verdict, ...)."""
    import json
    from .tlaval import iter_dump
    if not records:
        return [], []
    nshards = max(1, min(nshards, (len(records) + 199) // 200))
    wd = scratch("trace-" + module)
    jobs = []
    shards = [records[i::nshards] for i in range(nshards)]
    for s, recs in enumerate(shards):
        path = os.path.join(wd, f"trace{s}.ndjson")
        with open(path, "w") as f:
            for r in recs:
                f.write(json.dumps(r, separators=(",", ":")) + "\n")
        c = dict(cfg or dict(invariants=["RecordOK"]))
        e = {"TRACE_FILE": path}
        e.update(env or {})
        jobs.append(dict(module=module, cfg=c, name=f"{module}-t{s}", dump=True, env=e,
                         continue_=True, timeout=timeout))
    results = run_jobs(jobs)
    out = [None] * len(records)
    for s, r in enumerate(results):
        n = 0
        for st in iter_dump(r.dump):
            idx = (st["l"] - 1) * nshards + s
            out[idx] = (records[idx], st)
            n += 1
        if n != len(shards[s]):
            raise MachineryError(f"trace validation of {module}: {n} verdicts for {len(shards[s])} records")
    return out, results
