"""C09 - pack_partitions keeps every row and orders rows along the Hilbert curve.

spec         : Pack!PackOK - partition count, permutation of the input rows, keys non-decreasing within and across partitions,
               every key = Hilbert distance of the row's active geometry against the total bounds of the whole frame
               (HilbertDist / Hilbert: curve position of the bbox-centre cell).
code -> spec : the driver enumerates frames (catalogue rows of all kinds, two geometry columns, active = the second, missing
               geometries, duplicates) x input partitionings (1..3 parts, empty parts from filtering, already-sorted input)
               x npartitions x p; every returned frame is logged as (row id, key digits) per partition and judged by Trace_Pack.
direct       : whole rows intact (all columns), index name, independence of the input partitioning (same packed rows up to ties)."""
from __future__ import annotations

import math

import numpy as np
import pandas as pd

from . import c04, geom
from .c07 import digits
from .core import Check
from .tlc import validate_trace


def corner(kind, x, y):
    return {"point": geom.El([[[[x, y]]]]), "multipoint": geom.El([[[[x, y]]]]), "line": geom.El([[[[x, y], [x, y]]]]),
            "ring": geom.El([[[[x, y], [x, y]]]]), "multiline": geom.El([[[[x, y]]]]),
            "polygon": geom.El([[[[x, y], [x, y], [x, y], [x, y]]]]), "multipolygon": geom.El([[[[x, y], [x, y], [x, y], [x, y]]]])}[kind]


def run(tier: str, seed: int) -> int:
    import dask
    import dask.dataframe as dd
    import spatialpandas as sp
    from spatialpandas.dask import DaskGeoDataFrame
    chk = Check("C09", tier, seed)
    rng = chk.rng
    chk.notes["rule"] = ("frames of 3..12 rows x 7 kinds (catalogue elements incl. missing / empty / duplicates, extent made a power of two by corner "
                         "rows, or arbitrary) x input partitionings x npartitions 1..5 x p in {1,3,10,15,16,20}; each packed frame is one trace "
                         "record judged by Trace_Pack!WhyNot; non-trivial = record with >= 2 output partitions and >= 3 distinct keys")
    chk.assumptions = ["when pack_partitions raises (Dask cannot split rows that all share one Hilbert distance) nothing is claimed",
                       "keys are compared with the specification's curve position on the exact domain (power-of-two extents); elsewhere the "
                       "driver additionally compares them with GeoSeries.hilbert_distance on the pandas frame (C08's subject)"]
    quick = tier == "quick"
    cats = c04.catalogues()
    catname = dict(c04.CATS)
    recs, meta = [], []
    raised = 0
    cleanup_dirs = []
    mode_no = seed
    with dask.config.set(scheduler="synchronous"):
        nframes = 3 if quick else 30
        for kind in geom.KINDS:
            cat = cats[catname[kind]]
            for f in range(nframes + 2):
                n = rng.choice([3, 5, 8, 12])
                exact = f % 3 != 2
                els = [rng.choice(cat) for _ in range(n)]
                if exact:
                    els = [corner(kind, 0, 0)] + els + [corner(kind, 8, 8)]
                if f >= nframes:
                    # degenerate extents: every geometry on one horizontal (f = nframes) or vertical line - the zero extent is widened by 1
                    exact = True
                    line_xy = [0, 2, 4, 7, 8, 3, 5]
                    els = [corner(kind, v, 3) if f == nframes else corner(kind, 5, v) for v in line_xy]
                other = geom.make_array("point", [geom.El([[[[100 - i, 50 + (i * 7) % 5]]]]) for i in range(len(els))])
                # every third exact frame in float32 on a half-grid at 2^22: coordinates exact, but lo + hi of a bounding box is not
                # representable in float32 (the centre cell must come out of double-precision arithmetic)
                f32 = exact and f % 3 == 1 and not any(geom.has_special(e) for e in els)
                shape = geom.make_array(kind, els, geom.Affine(0.5, 2.0 ** 22, 0.5, 2.0 ** 22, name="half@2^22"), "float32") if f32 else geom.make_array(kind, els)
                df = sp.GeoDataFrame({"id": np.arange(1, len(els) + 1), "other": other, "txt": [f"t{i}" for i in range(len(els))],
                                      "shape": shape}).set_geometry("shape")
                tb = df.geometry.array.total_bounds
                for inparts in ([1, 3] if quick else [1, 2, 3]):
                    # every history mode in turn (a random draw once left a mode out of the quick tier)
                    MODES = ["plain", "indexed", "filtered", "sorted", "touched-filtered", "repacked", "indexed", "repacked-filtered", "dataset-bounded"]
                    mode_no += 1
                    mode = MODES[mode_no % len(MODES)]
                    if mode == "dataset-bounded" and len(df) < 12:
                        mode = "plain"
                    src = df
                    if mode == "sorted":
                        hd = df.geometry.hilbert_distance(total_bounds=tb, p=10)
                        src = df.iloc[np.argsort(hd.values, kind="stable")]
                    ddf = dd.from_pandas(src, npartitions=min(inparts, len(src)))
                    kept = list(src["id"])
                    if mode == "touched-filtered":
                        # the parent's partition bounds / index are cached BEFORE rows are filtered away (incl. the extreme ones)
                        ddf.partition_sindex  # noqa: B018
                        _ = ddf.cx[0:1, 0:1]
                    if mode == "dataset-bounded":
                        # history: the frame is a 12-partition parquet dataset re-read with bounds= (some partitions pruned, the stored per-partition
                        # bounds attached to the rest); packing uses the extent of the rows that are there
                        import shutil
                        import tempfile
                        from spatialpandas.io import read_parquet_dask
                        td = tempfile.mkdtemp(prefix="c09-", dir=__import__("os").environ.get("TMPDIR") or "/var/tmp")
                        try:
                            dd.from_pandas(src, npartitions=12).to_parquet(td + "/d.parq")
                            bb = df.geometry.array.bounds[len(df) // 2]
                            box = (float(tb[0]), float(tb[1]), float(tb[0] + (tb[2] - tb[0]) / 2), float(tb[3])) if not np.isnan(tb).any() else (0.0, 0.0, 4.0, 8.0)
                            rd = read_parquet_dask(td + "/d.parq", geometry="shape", bounds=box)
                            loaded = rd.compute()
                            ddf = dd.from_pandas(loaded.iloc[:0], npartitions=1) if False else rd.persist()
                            kept = [int(i) for i in loaded["id"]]
                        finally:
                            pass
                        cleanup_dirs.append(td)
                    if mode == "indexed":
                        # history: every partition carries a built spatial index (build_sindex, persisted) before the frame is packed
                        ddf = ddf.build_sindex(page_size=2).persist()
                    if mode in ("repacked", "repacked-filtered"):
                        # the input was packed before (other p, other partition count): it is already indexed by a column called
                        # hilbert_distance whose values are NOT the distances asked for now
                        try:
                            first = ddf.pack_partitions(npartitions=min(2, inparts), p=7)
                            first.compute()
                            ddf = first
                        except Exception:  # noqa: BLE001
                            mode = "plain" if mode == "repacked" else "filtered"
                    if mode in ("filtered", "touched-filtered", "repacked-filtered"):
                        drop = set(list(src["id"])[:max(1, len(src) // 3)])       # empties the first input partition(s)
                        ddf = ddf[~ddf["id"].isin(drop)]
                        kept = [i for i in kept if i not in drop]
                    sub = df[df["id"].isin(kept)]
                    sub_els = [els[i - 1] for i in sub["id"]]
                    for npart in ([1, 2, 4] if quick else [1, 2, 3, 5]):
                        for p in ([3, 16] if quick else [1, 3, 10, 15, 16, 20]):
                            info = dict(kind=kind, elems=[geom.to_py(kind, e) for e in sub_els], ids=list(sub["id"]), inparts=inparts, mode=mode, npart=npart, p=p)
                            try:
                                packed = ddf.pack_partitions(npartitions=npart, p=p)
                                parts = [packed.get_partition(k).compute() for k in range(packed.npartitions)]
                            except Exception:  # noqa: BLE001
                                raised += 1
                                continue
                            chk.count()
                            if not isinstance(packed, DaskGeoDataFrame) or packed.geometry.name != "shape":
                                chk.violation(f"type|{kind}", f"pack_partitions returned {type(packed).__name__} with active geometry "
                                              f"{getattr(packed, '_meta', None) is not None and packed._meta._geometry!r}; {info}", "", ctx=dict(site="pack_partitions", mode="type"))
                                continue
                            allrows = pd.concat(parts)
                            if allrows.index.name != "hilbert_distance":
                                chk.violation(f"indexname|{kind}", f"index name {allrows.index.name!r}; {info}", "", ctx=dict(site="pack_partitions", mode="indexname"))
                            if list(allrows.columns) != list(sub.columns):
                                chk.violation(f"columns|{kind}|{mode}", f"pack_partitions changed the columns: {list(allrows.columns)}, input {list(sub.columns)}; {info}", "",
                                              ctx=dict(site="pack_partitions", mode="columns"))
                            # whole rows intact
                            back = allrows.reset_index(drop=True).sort_values("id")
                            ref = sub.sort_values("id")
                            same = (list(back["id"]) == list(ref["id"]) and list(back["txt"]) == list(ref["txt"]) and
                                    [geom.canon(kind, e) for e in geom.from_array(kind, back["shape"].array)] == [geom.canon(kind, e) for e in geom.from_array(kind, ref["shape"].array)] and
                                    [geom.canon("point", e) for e in geom.from_array("point", back["other"].array)] == [geom.canon("point", e) for e in geom.from_array("point", ref["other"].array)])
                            if not same:
                                chk.violation(f"rows|{kind}|{mode}", f"pack_partitions changed / lost / duplicated rows: got ids {list(allrows['id'])}; {info}", "",
                                              ctx=dict(site="pack_partitions", mode="rows"))
                                continue
                            # keys against the pandas path (same function, C08) for non-exact frames too
                            want_hd = dict(zip(sub["id"], sub.geometry.hilbert_distance(total_bounds=sub.geometry.array.total_bounds, p=p).values))
                            if any(int(k) != int(want_hd[i]) for k, i in zip(allrows.index, allrows["id"])):
                                chk.violation(f"keys|{kind}|{p}", f"index values are not the rows' Hilbert distances for the whole frame's total bounds: "
                                              f"{list(zip(allrows['id'], allrows.index))} vs {want_hd}; {info}", "", ctx=dict(site="pack_partitions", mode="keys", p=p))
                            pos = {rid: q + 1 for q, rid in enumerate(sub["id"])}
                            recs.append(dict(kind=kind, elems=[dict(null=e["null"], g=e["g"]) for e in sub_els], p=p, nparts=npart,
                                             parts=[[[pos[int(i)], digits(int(k), p, 2)] for k, i in zip(part.index, part["id"])] for part in parts]))
                            meta.append(info)
    chk.notes["calls_that_raised"] = raised
    for td_ in cleanup_dirs:
        __import__("shutil").rmtree(td_, ignore_errors=True)
    verdicts, tres = validate_trace("Trace_Pack", recs, cfg=dict(invariants=["RecordOK"]), timeout=3000)
    chk.add_tlc(tres)
    chk.traces += len(recs)
    tally = {}
    for (rec, st), info in zip(verdicts, meta):
        v = st["verdict"]
        tally[v] = tally.get(v, 0) + 1
        keys = {tuple(r[1]) for part in rec["parts"] for r in part}
        if v == "ok" and rec["nparts"] >= 2 and len(keys) >= 3:
            chk.nontrivial_case(hash(repr(rec)))
        if v != "ok":
            chk.violation(f"{info['kind']}|{v}|{info['p']}|{info['npart']}", f"pack_partitions(npartitions={info['npart']}, p={info['p']}) on a {info['kind']} frame "
                          f"({info['inparts']} input partitions, {info['mode']}): Trace_Pack verdict '{v}'\n  elements {info['elems']}\n  result (position, key digits) per partition {rec['parts']}"[:3000],
                          f"# {info}"[:4000], ctx=dict(site="pack_partitions", mode=v, p=info["p"]))
    chk.notes["trace_verdicts"] = tally
    if recs:
        chk.sample({k: v for k, v in recs[len(recs) // 2].items()})
    return chk.finish()
