"""C02 - point-versus-shape `intersects` exact (the predicate behind sjoin).

spec -> code : MC_PointHit enumerates every shape of the families with the oracle's verdict for every test
               point of the doubled grid (TLC also checks the winding-number transcription against the
               crossing-parity oracle); replayed on PointArray.intersects / Point.intersects /
               GeoSeries.intersects in array, inds and scalar form, affine images and subtypes.
code -> spec : random larger shapes and points, every call judged by Trace_BoxHit (op = "point")."""
from __future__ import annotations

import numpy as np

from . import c01, geom
from .c01 import F32EDGE
from .core import Check
from .tlc import MachineryError, validate_trace

FAMILIES_QUICK = [("point", 3, 1, None), ("multipoint", 3, 2, None), ("line", 3, 16, None),
                  ("multiline", 3, 64, range(0, 8)), ("polygon", 3, 16, None), ("holed", 5, 64, range(0, 24)),
                  ("multipolyvalid", 3, 64, range(0, 16)), ("holedmulti", 6, 4, None)]
FAMILIES_THOROUGH = [("point", 4, 1, None), ("multipoint", 3, 2, None), ("line", 3, 16, None), ("line4", 3, 64, None),
                     ("multiline", 3, 64, None), ("polygon", 3, 16, None), ("holed", 5, 64, None),
                     ("multipolyvalid", 3, 64, None), ("holedmulti", 6, 4, None)]


def point_array(pts, aff, subtype, with_missing):
    """PointArray of the model points (plus, for float subtypes, missing and empty points)."""
    rows = [[aff.x(p[0]), aff.y(p[1])] for p in pts]
    extra = 0
    if with_missing:
        rows = [None] + rows + [None, [float("nan"), float("nan")]]
        extra = 1
    if np.dtype(subtype).kind == "i":
        rows = [None if r is None else [int(r[0]), int(r[1])] for r in rows]
    return geom.PointArray(rows, dtype=subtype), extra


def replay_family(chk: Check, fam, data, tier):
    pts = data["boxes"]           # PTSEQ
    cases = data["cases"]
    if not cases:
        return
    npt = len(pts)
    by_kind = {}
    for k, e, x in cases:
        by_kind.setdefault(k, []).append((e, x))
    for kind, lst in by_kind.items():
        elems = [e for e, _ in lst]
        E = np.array([x for _, x in lst], dtype=np.int8)
        chk.nontrivial_n += int(((E == 1).any(axis=1) & (E == 0).any(axis=1)).sum())   # shapes with both answers
        chk.sample({"shape_kind": kind, "shape": elems[min(3, len(elems) - 1)], "point": pts[npt // 2],
                    "expect": int(E[min(3, len(elems) - 1), npt // 2])})
        # (image, subtype of the shapes, subtype of the points); the last combination: float32 shapes on integers just above 2^23 and float64
        # points on half-integers there, which float32 cannot represent - the points must not be narrowed to the shapes' type
        combos = [(a_, s_, s_) for a_ in geom.IMAGES for s_ in geom.SUBTYPES] + [(F32EDGE, "float32", "float64")]
        for aff, subtype, psub in combos:
            if True:
                integer = np.dtype(subtype).kind == "i"
                keep = [i for i, e in enumerate(elems) if not (integer and geom.has_special(e))]
                if integer and not aff.integral():
                    continue
                if subtype == "float32" and aff.name == "big":
                    continue   # float32 x float32 cross products are exact only for |differences| < 2^12 (DESIGN §3.2)
                els = [elems[i] for i in keep]
                if not els or not geom.representable(kind, els, aff, subtype):
                    continue
                shapes = geom.make_array(kind, [geom.NULL] + els, aff, subtype)
                parr, off = point_array(pts, aff, psub, with_missing=not integer)
                n = len(parr)
                inds = np.array([chk.rng.randrange(n) for _ in range(n // 2)] + [n - 1, 0, 0])
                ser = None
                if aff is geom.IDENT and subtype == "float64":
                    import spatialpandas as sp
                    ser = sp.GeoSeries(parr, index=[f"p{i}" for i in range(n)])
                Ek = E[keep]
                for i in range(len(els)):
                    shape = shapes[i + 1]
                    if shape is None:
                        continue          # (a missing shape cannot be passed as an argument)
                    want = np.zeros(n, dtype=np.int8)
                    want[off:off + npt] = Ek[i]
                    got = np.asarray(parr.intersects(shape))
                    chk.count(n)
                    dec = want != 2
                    bad = np.nonzero(dec & (got != (want == 1)))[0]
                    if len(bad):
                        report(chk, kind, els[i], aff, subtype, parr, int(bad[0]), "array", bool(got[bad[0]]), int(want[bad[0]]))
                    if i % 23 == 2 and n >= 3 and chk.budget("tiled", 60 if tier == "quick" else 600):
                        from .measures import tiled
                        big, bpos = tiled(parr)
                        gb = np.asarray(big.intersects(shape))
                        chk.count(len(big))
                        if gb.shape != (len(big),) or not np.array_equal(gb, got[bpos]):
                            j = int(np.nonzero(gb != got[bpos])[0][0]) if gb.shape == (len(big),) else 0
                            report(chk, kind, els[i], aff, subtype, parr, int(bpos[j]), f"array tiled to {len(big)} points (position {j})",
                                   bool(gb[j]) if gb.shape == (len(big),) else None, int(want[bpos[j]]))
                    got_i = np.asarray(parr.intersects(shape, inds))
                    if not np.array_equal(got_i, got[inds]):
                        j = int(np.nonzero(got_i != got[inds])[0][0])
                        report(chk, kind, els[i], aff, subtype, parr, int(inds[j]), "inds", bool(got_i[j]), int(want[inds[j]]),
                               extra=f"inds={inds.tolist()} position {j}; whole-array form gives {bool(got[inds[j]])}")
                    if ser is not None and i % 5 == 0:
                        gs = ser.intersects(shape)
                        if list(gs.index) != list(ser.index) or not np.array_equal(gs.values, got):
                            report(chk, kind, els[i], aff, subtype, parr, 0, "GeoSeries", None, None)
                    # scalar form on a rotating sample of points (all in thorough tier)
                    if subtype in ("float64", "int16") or tier == "thorough":
                        step = 1 if tier == "thorough" else 7
                        for j in range(i % step, n, step):
                            p = parr[j]
                            if p is None:
                                continue
                            g1 = bool(p.intersects(shape))
                            chk.count()
                            if (want[j] != 2 and g1 != (want[j] == 1)) or g1 != bool(got[j]):
                                report(chk, kind, els[i], aff, subtype, parr, j, "scalar", g1, int(want[j]),
                                       extra=f"array form gives {bool(got[j])}")


def report(chk, kind, e, aff, subtype, parr, j, form, got, want, extra=""):
    cls = geom.ARRAY_TYPES[kind].__name__
    py = geom.to_py(kind, e, aff)
    if np.dtype(subtype).kind == "i":
        py = geom._to_int(py)
    p = parr[j]
    ptxt = None if p is None else p.flat_values.tolist()
    missing = p is None or (p is not None and np.isnan(p.flat_values).any())
    msg = (f"PointArray[{subtype}].intersects({cls[:-5]}) form={form} image={aff.name}: point {ptxt!r} shape {py!r} "
           f"-> got {got}, oracle {want} (1 = intersects, 0 = not, 2 = unspecified) {extra}")
    replay = f"""import numpy as np
from spatialpandas.geometry import PointArray, {cls}
shape = {cls}([None, {py!r}], dtype={subtype!r})[1]
pts = PointArray([None, {ptxt!r}, None], dtype={subtype!r})
print('array :', pts.intersects(shape))
print('inds  :', pts.intersects(shape, np.array([1, 1, 0, 2])))
print('scalar:', pts[1].intersects(shape) if pts[1] is not None else None)
print('oracle (SPGeom!PointHit) for element 1:', {want!r})
"""
    chk.violation(f"{kind}|{form}|{subtype}|{aff.name}|{e['g']!r}|{ptxt!r}", msg, replay,
                  ctx=dict(site="PointArray.intersects", form=form, kind=kind,
                           point="missing" if p is None else ("empty" if missing else "valid")))


def record_traces(chk: Check, n_shapes):
    recs = []
    rng = chk.rng
    for a in range(n_shapes):
        kind = [k for k in geom.KINDS if k != "ring"][a % 6]
        lim = rng.choice((3, 6, 20, 200))
        e = c01.rand_element(rng, kind, lim)
        if e["null"]:
            continue
        verts = [v for part in e["g"] for ring in part for v in ring]
        pts = [c01.rand_vertex(rng, lim) for _ in range(12)]
        for _ in range(12):
            if len(verts) >= 2:
                a0, b0 = rng.choice(verts), rng.choice(verts)
                pts.append([(a0[0] + b0[0]) // 2, (a0[1] + b0[1]) // 2])       # midpoints: on segments / inside
                pts.append([2 * b0[0] - a0[0], 2 * b0[1] - a0[1]])            # collinear, beyond the end
            if verts:
                v = rng.choice(verts)
                pts.append([v[0] + rng.choice((-1, 0, 1)), v[1]])             # on the ray through a vertex
        subtype = rng.choice(geom.SUBTYPES)
        psub = rng.choice(["float64", subtype])
        if not geom.representable(kind, [e], geom.IDENT, subtype):
            subtype = "float64"
        if subtype == "float32" or psub == "float32":
            subtype = psub = "float64" if lim > 20 else subtype
        shape = geom.make_array(kind, [geom.NULL, e], geom.IDENT, subtype)[1]
        rows = [[int(p[0]), int(p[1])] if np.dtype(psub).kind == "i" else [float(p[0]), float(p[1])] for p in pts]
        if np.dtype(psub).kind == "i" and any(abs(c) > 30000 for p in pts for c in p):
            psub = "int64"
        parr = geom.PointArray(rows, dtype=psub)
        got = np.asarray(parr.intersects(shape))
        chk.count(len(pts))
        for p, r in zip(pts, got):
            recs.append(dict(op="point", kind=kind, null=False, g=e["g"], pt=[int(p[0]), int(p[1])], res=int(r),
                             subtype=subtype, psub=psub))
    return recs


def validate(chk: Check, recs):
    verdicts, results = validate_trace("Trace_BoxHit", recs)
    chk.add_tlc(results)
    chk.traces += len(recs)
    tally = {}
    for rec, st in verdicts:
        v = st["verdict"]
        tally[v] = tally.get(v, 0) + 1
        if v == "ok":
            chk.nontrivial_case(hash((rec["kind"], repr(rec["g"]), tuple(rec["pt"]))))
        if v == "mismatch":
            e = dict(null=False, g=rec["g"])
            parr = geom.PointArray([[float(rec["pt"][0]), float(rec["pt"][1])]], dtype="float64")
            report(chk, rec["kind"], e, geom.IDENT, rec["subtype"], parr, 0, "array(trace)", bool(rec["res"]), 1 - rec["res"],
                   extra=f"point subtype {rec['psub']}")
    chk.notes["trace_verdicts"] = tally


def run(tier: str, seed: int) -> int:
    chk = Check("C02", tier, seed)
    chk.notes["rule"] = ("spec->code: every shape of MC_PointHit's families x every point of the doubled grid (+ missing and "
                         "empty points, expected False), replayed in affine images x subtypes x forms {array, inds, scalar, "
                         "GeoSeries}; code->spec: random shapes with points on vertices/midpoints/collinear extensions/vertex "
                         "rays judged by Trace_BoxHit. non-trivial = shape having both intersecting and non-intersecting grid "
                         "points (spec->code, distinct by construction) or a judged, decided trace record (code->spec)")
    chk.assumptions = ["affine-lift argument of DESIGN §3.2; float32 x float32 restricted to |coordinate differences| < 2^12",
                       "points exactly on a polygon ring are outside the guarantee (only form agreement is checked)"]
    fams = FAMILIES_THOROUGH if tier == "thorough" else FAMILIES_QUICK
    data = c01.generate(chk, fams, module="MC_PointHit", seqname="PTSEQ")
    before = len(chk.violations) + sum(chk.known_hits.values())
    for fam, d in data.items():
        replay_family(chk, fam, d, tier)
    design_bad = sum(d["design_bad"] for d in data.values())
    if design_bad and len(chk.violations) + sum(chk.known_hits.values()) == before:
        raise MachineryError("MC_PointHit: DesignAgrees violated but the code agrees with the oracle: SPGeomImpl mis-describes the code")
    chk.notes["design_states_disagreeing"] = design_bad
    chk.exhaustive = True
    recs = record_traces(chk, 150 if tier == "quick" else 3000)
    validate(chk, recs)
    return chk.finish()
