"""Matchers for /verif/known_findings.json.

A finding suppresses a failure only if its matcher accepts the failure's classification `ctx`
(call site, classified input, failure mode) - so a different failure at the same site, or the same
failure elsewhere, is still a VIOLATION.  Matchers are committed code; nothing is learnt at run time."""


def matches(finding: dict, ctx: dict) -> bool:
    want = finding.get("match")
    if not want:
        return False
    for k, v in want.items():
        got = ctx.get(k)
        if isinstance(v, list):
            if got not in v:
                return False
        elif got != v:
            return False
    return True
