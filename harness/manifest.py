"""Regenerate /verif/MANIFEST.json from the table below:  /venv/bin/python -m harness.manifest"""
import json
import os

VERIF = os.path.dirname(os.path.dirname(os.path.abspath(__file__)))

BASE_NOTE = ("Trusted base: TLC 1.8 and the TLA+ modules under /verif/spec (the oracle), the TLA+ value reader, "
             "harness/geom.py (abstract value <-> spatialpandas object), pyarrow/pandas/dask/numba themselves. "
             "Small-scope bounds are stated in the evidence file; the lift from the model grid to all exactly "
             "representable coordinates is the order-type argument of DESIGN §3.2.")

CHECKS = {
    "C01": dict(engine="SPGeom/SPGeomImpl/MC_BoxHit/Trace_BoxHit",
                text="TLC enumerates every element of the small-scope families x every box of the doubled grid, checks the "
                     "kernel transcription (D) against the exact oracle (P) on each, and the same states are replayed on "
                     "the real arrays in all forms/subtypes/affine images; random larger cases run on the code are "
                     "validated record by record by TLC (Trace_BoxHit).",
                technique="TLA+ oracle + design transcription model-checked by TLC; spec->code replay of TLC states; code->spec trace validation by TLC",
                ref="§6 C01"),
    "C02": dict(engine="SPGeom/SPGeomImpl/MC_PointHit/Trace_BoxHit",
                text="TLC enumerates every shape of the small-scope families x every test point of the doubled grid (rays through "
                     "vertices, along horizontal edges, collinear extensions are the norm), checks the winding-number transcription "
                     "against the crossing-parity oracle, and the states are replayed on PointArray/Point/GeoSeries.intersects in "
                     "array, inds and scalar form; random larger shapes run on the code are judged by TLC.",
                technique="TLA+ oracle + design transcription model-checked by TLC; spec->code replay; code->spec trace validation",
                ref="§6 C02"),
    "C03": dict(engine="RTree/MC_RTree/Trace_RTree",
                text="TLC model-checks the transcription of the R-tree build, node-to-slice mapping, stack traversal and leaf masks "
                     "against brute force for every row sequence (incl. NaN rows, duplicates, zero-extent boxes), page size, key "
                     "permutation and query of the small scope in 1-3 dimensions; the generated cases are replayed on HilbertRtree / "
                     "GeometryArray.sindex; traces of random trees incl. the code's private keys and node boxes are validated by "
                     "TLC against both brute force and the modelled design.",
                technique="TLC model checking of the design against brute force; spec->code replay; code->spec trace validation incl. private state",
                ref="§6 C03"),
    "C04": dict(engine="GeoFrameOps/GeoFrame/MC_GeoFrame/Trace_GeoFrame (+ RTree, SPGeom, SPMeasure)",
                text="State machine of one object (rows, index state) with actions Build / Slice / Copy / Cx; TLC checks for every behaviour of "
                     "the small scope that the mechanism (index path: covered rows + exact test on overlapping rows, sorted; mask path) "
                     "returns the P-level selection incl. key resolution (scalars, omitted / reversed ends, ends beyond the extent); every "
                     "Cx-state is replayed on array / GeoSeries / GeoDataFrame (labels, other columns, index-state conformance after each "
                     "step); random larger objects are judged by TLC.",
                technique="TLC model checking of a state machine; spec->code replay of TLC behaviours; code->spec trace validation",
                ref="§6 C04"),
    "C05": dict(engine="SJoin/MC_SJoin/Trace_SJoin (+ RTree, SPGeom, SPMeasure)",
                text="TLC checks that candidate generation through the left R-tree plus the exact point test yields exactly the P-level set "
                     "of intersecting pairs, and computes the joined table (rows as a bag, column roles, unmatched rows) for inner / left / "
                     "right; every configuration is replayed through sjoin (suffixes, clashes, index names, missing / empty geometries); "
                     "inner / left joins repeated with a Dask left frame of 1-3 partitions; random frames judged by TLC.",
                technique="TLC model checking (design = relational definition); spec->code replay; code->spec trace validation",
                ref="§6 C05"),
    "C06": dict(engine="DaskFrame/MC_DaskFrame, World/MC_World/Trace_World (+ GeoFrameOps, SJoin, RTree)",
                text="State machine of a Dask frame (partitions, cached partition bounds) with provenance actions (touch caches, row filter, "
                     "column selection) and queries; TLC checks that the partition-level mechanism (partition bounds, NaN for empty / inert "
                     "partitions, partition R-tree, per-partition cx, right-frame pre-filter of sjoin, nanmin/nanmax total bounds) equals the "
                     "pandas meaning on the concatenated rows and that a cache always describes its own frame; behaviours are replayed on "
                     "real DaskGeoDataFrames with exactly those partitions (optionally through parquet) and compared with the model and with "
                     "pandas on compute(). Two further stages bind the cross-feature model World (one frame with two geometry columns through "
                     "18 transformations and 10 observations): behaviours drawn by tlc -simulate are replayed on real objects with every "
                     "observation compared (spec->code), and histories chosen by a random driver on real objects are judged by Trace_World "
                     "(code->spec).",
                technique="TLC model checking of a state machine with caches; spec->code replay of exhaustive and simulated behaviours; code->spec "
                          "trace validation of driver histories; differential against pandas on the concatenated frame",
                ref="§6 C06"),
    "C07": dict(engine="Hilbert/HilbertSkilling/MC_Hilbert/Trace_Hilbert",
                text="TLC checks the finite transducer lemma L1-L4 (from which bijectivity, unit steps, corners and refinement follow for "
                     "every order p by the written induction), transducer = textbook recursion, and the transcription of the Skilling "
                     "algorithm against both (n = 2) and against the property itself (n = 1, 3); the code's tables and sampled cells up "
                     "to p = 31 are logged as bit / digit sequences and validated by TLC.",
                technique="TLC model checking of the algorithm transcription + finite induction lemma; code->spec trace validation on bit/digit sequences",
                ref="§6 C07"),
    "C08": dict(engine="HilbertDist/MC_HilbertDist/Trace_HilbertDist (+ Hilbert, SPMeasure)",
                text="The specification gives the centre cell as a bit sequence valid for every p (checked by TLC against the arithmetic "
                     "formulation, with monotonicity / clamping / upper-edge / widening lemmas) and the distance as the transducer's digits; "
                     "every hilbert_distance call of the driver is logged WITH THE ELEMENT and TLC recomputes bounds -> centre -> cell -> "
                     "curve digits (equality on the exact domain, range elsewhere); argument immutability, sequence types, independence of "
                     "position / slicing are checked on the same calls.",
                technique="TLA+ specification of cell + curve checked by TLC; code->spec trace validation of every call (element-level oracle)",
                ref="§6 C08"),
    "C09": dict(engine="Pack/Trace_Pack (+ HilbertDist, Hilbert, SPMeasure)",
                text="Pack!PackOK states the contract (partition count, permutation of the rows, keys non-decreasing within and across "
                     "partitions, key = curve position of the bbox-centre cell for the WHOLE frame's total bounds); every packed frame the "
                     "driver produces (7 kinds, two geometry columns, missing / duplicate rows, 1-3 input partitions incl. emptied and "
                     "pre-sorted ones, npartitions 1..5, p up to 20 incl. 16) is logged per partition and judged by TLC; whole-row integrity "
                     "and index name are compared directly.",
                technique="TLA+ contract over logged results (code->spec trace validation by TLC); Dask's shuffle is a black box",
                ref="§6 C09"),
    "C10": dict(engine="PackFS/Trace_PackFS (+ Pack, fsrec recording filesystem)",
                text="PackFS models the filesystem protocol of pack_partitions_to_parquet one action per filesystem call (tasks as processes, "
                     "retry wrappers as loops, local move-into-directory semantics); TLC explores every interleaving and every assignment of "
                     "rows to output partitions for the three temp-directory modes with / without a previous dataset: CleanFinal, NoSharedWrites. "
                     "Real runs on a recording filesystem are validated call by call by Trace_PackFS (each protocol call must be exactly the "
                     "call the model expects next from that task, every answer the model filesystem's answer, the final tree the model's), "
                     "and the read-back rows / order are judged by Pack!PackOK.",
                technique="TLC model checking of the protocol state machine; code->spec trace validation of recorded filesystem calls (per-task call-exact binding)",
                ref="§6 C10"),
    "C11": dict(engine="ParquetDS/MC_ParquetDS/Trace_ParquetDS",
                text="The observable frame is an abstract record; the round-trip identity, the columns= projection rule and the list / glob "
                     "concatenation rule are TLA+ operators; the driver covers kind x subtype x backing x index kind x compression x partitions "
                     "x projection with pandas and Dask writers / readers and TLC judges every (before, after) pair.",
                technique="TLA+ identity / projection / concatenation rules; code->spec trace validation by TLC over a covering configuration walk",
                note="Parquet / Arrow byte-level fidelity is observed through read-back, not modelled. ",
                ref="§6 C11"),
    "C12": dict(engine="ParquetDS/MC_ParquetDS/Trace_ParquetDS",
                text="TLC checks that partition numbers travelling as strings (file names, JSON keys) come back in numeric order through the "
                     "natural sort / integer conversion for up to 16 partitions (and that more than ten partitions are needed to see a "
                     "difference); recorded bounds at three observation points vs the elements actually loaded per partition, and the "
                     "bounds= pruning (kept partitions, reported bounds, no intersecting row lost) are judged by TLC for both writers, "
                     "two geometry columns, geometry= choices, lists and globs.",
                technique="TLC check of the ordering design; code->spec trace validation of recorded bounds and pruning",
                ref="§6 C12"),
    "C13": dict(engine="SPMeasure/SPMeasureImpl/MC_Measure/Trace_Measure",
                text="TLC checks bounds_interleaved over (values, outer offsets) against the tight-extent oracle on every element of the "
                     "families (non-finite coordinates, empty, degenerate); states replayed on all array types x subtypes x images x 11 "
                     "derivations (bounds, total_bounds(_x/_y), GeoSeries, sindex, Dask); random arrays validated by TLC.",
                technique="TLA+ oracle + transcription model-checked; spec->code replay over derivations; code->spec trace validation",
                ref="§6 C13"),
    "C14": dict(engine="SPMeasure/SPMeasureImpl/MC_Measure/Trace_Measure",
                text="TLC checks the compute_area / compute_line_length transcriptions against shoelace / squared-segment-length oracles; "
                     "states replayed (area exact, length exact when Pythagorean, boundary = rings, scalar = array, translations) and "
                     "random Pythagorean paths validated by TLC.",
                technique="TLA+ oracle + transcription model-checked; spec->code replay; code->spec trace validation",
                note="Lengths of non-Pythagorean segments are compared to math.fsum(sqrt) at 1e-12 relative outside the model. ",
                ref="§6 C14"),
    "C15": dict(engine="SPMeasure/SPMeasureImpl/MC_Measure/Trace_Measure",
                text="TLC proves on every element of the scope that the oracle Oriented is idempotent, keeps rings up to reversal, fixes "
                     "signs and area, and that the orient_polygons transcription equals it; replayed on Polygon/MultiPolygon arrays "
                     "(missing anywhere, slices, subtypes, images down to 2^-30) incl. input immutability and intersection invariance.",
                technique="TLA+ oracle with theorems checked by TLC + transcription; spec->code replay; code->spec trace validation",
                ref="§6 C15"),
    "C16": dict(engine="GeoArrayADT/MC_GeoArray + ArrowBuf/MC_ArrowBuf/Trace_ArrowBuf",
                text="P: the array as a sequence with every pandas derivation as an action (Python index / slice / take semantics, error "
                     "classes); TLC enumerates every history of <= 2 steps; D: TLC checks for every Arrow layout of the modelled family "
                     "(array offset, foreign elements around the window, byte-packed validity bitmap, 1-3 nesting levels) that the buffer "
                     "accessors yield the abstract quantities. Histories are replayed on all seven array types (sources fresh / cut from "
                     "larger buffers / concatenated, direct or through GeoSeries) comparing elements after each step and every derived "
                     "quantity with a fresh array; raw layouts of real derived arrays are validated by TLC against ArrowBuf.",
                technique="TLC enumeration of derivation histories + TLC check of buffer accessors over all layouts; spec->code replay; code->spec layout validation",
                ref="§6 C16"),
    "C17": dict(engine="Inert/MC_Inert/Trace_Inert (+ MC_RTree, MC_GeoFrame, MC_SJoin with NaN rows)",
                text="The inert-row relation (row-wise, aggregate, selection, join pairs under the position shift) is a TLA+ module; TLC "
                     "proves the P-level operators and the indexed cx mechanism satisfy it for every catalogue array / insertion set / "
                     "inert flavour; the driver runs every operation on A and A + inert rows with arbitrary float coordinates (pandas and "
                     "Dask) and TLC validates each logged pair against the relation.",
                technique="metamorphic relation specified in TLA+, model-checked on P/D operators; code->spec trace validation of opaque-token pairs",
                ref="§6 C17"),
    "C18": dict(engine="Caches/Trace_Caches + PackFS/Trace_PackFS + differential matrix",
                text="TLC explores all interleavings of 3 client threads on the check-build-assign cache pattern (each use sees a complete value; "
                     "a two-field memo is the failing negative control) and of the pack tasks (unique final dataset, no path written by two "
                     "tasks of a phase). Client threads sharing one object are run with 1 us switch interval and seeded yields at env-guarded "
                     "trace points; the cache events are validated by TLC and every answer compared with the single-threaded one; threaded "
                     "pack executions with injected delays are validated against PackFS; 17 operations are compared across "
                     "NUMBA_NUM_THREADS x scheduler x workers x repetitions.",
                technique="TLC model checking of interleavings; code->spec trace validation of real threaded runs; differential exploration for numba thread counts",
                note="Races inside numba prange / parallel kernels are explored differentially only. ",
                ref="§6 C18"),
    "C19": dict(engine="PackFS || Fault / Trace_PackFS + fault-injecting filesystem", category="fault_enumeration",
                text="TLC explores PackFS composed with a fault process (a fault before any filesystem call; retry wrappers restart up to the "
                     "attempt limit; singles everywhere, pairs and repetition to the limit in the smaller configurations): a call that returns "
                     "leaves exactly the fault-free dataset, and a repeat with overwrite=True after an aborted call restores it. On the real "
                     "code EVERY call position of the fault-free run is faulted (OSError / FileNotFoundError, stale listing on ls, sampled pairs "
                     "and repetitions); each run is classified against the fault-free snapshot and every faulted execution (with its repeat) is "
                     "validated against the model.",
                technique="exhaustive single-fault enumeration on the code + TLC model checking of protocol || fault; trace validation of every faulted run",
                ref="§6 C19"),
    "C20": dict(engine="ActiveGeom/MC_ActiveGeom",
                text="State machine of a frame's columns / active geometry (P) and of GeoDataFrame._geometry as pandas' propagation classes and "
                     "Dask's meta / partitions leave it (D); TLC checks that the mechanism honours the active geometry after every operation "
                     "sequence of bounded length; every behaviour is replayed on real (Dask)GeoDataFrames and after each step the projected "
                     "state (type, .geometry.name, per-partition active geometry, which column cx / partition bounds really use) is compared.",
                technique="TLC model checking of a state machine; spec->code replay with abstract-state projection after every action",
                ref="§6 C20"),
}

NOT_YET = {}

# scenario dimensions added after the first build (DESIGN.md §6 summary, §11 tables), appended to the level text
ADDED = {
    "C01": "ring rotations, boxes inside holes, float32 vertices above 2^23 with half-integer box corners, a 2^-20 grid, 70 001-element tiled arrays, permuted position lists, GeoSeries with a built index, Dask route",
    "C02": "float64 points against float32 shapes, tiled arrays",
    "C03": "answers held across later queries; the input array overwritten after the build",
    "C04": "stepped slices; coordinates beyond 2^24 and a decimal scale",
    "C05": "Dask left frames of 1-3 partitions",
    "C07": "batches of non-power-of-two length, narrow coordinate dtypes",
    "C08": "index built on the same object, partitioned frames incl. the parquet route, float32 half-grid image, one-element arrays",
    "C09": "history modes in rotation: filtered, sorted, touched-filtered, repacked, indexed, dataset-bounded; float32 half-grid frames",
    "C10": "12 non-empty outputs, 12 inputs, dense interior-empty patterns, packed-then-changed history",
    "C11": "RangeIndex variants",
    "C12": "cached-then-filtered writer, path reuse, fractional coordinates (bit-exact bounds), half-reversed boxes, stacked-point pack datasets",
    "C13": "cached-then-filtered Dask frames, parquet provenance with / without metadata, blank partitions at any position, twelve stored partitions pruned by bounds=, tiled arrays",
    "C14": "a translation by 3e8, tiled arrays, Dask route, elements with more rings than coordinates",
    "C15": "already-oriented pieces, degenerate shells, 300 / 520 holes, int64 beyond 2^53, half-area rings in integer subtypes, tiled arrays",
    "C16": "longer backings, permutation index lists, indexed sources, shift / repeat / dropna / fillna / insert / delete",
    "C17": "an all-inert middle partition through parquet, inds= forms",
    "C18": "interior-empty configurations under threads, ~70 000-element kernels in the differential matrix, concurrent packs of one frame",
    "C19": "configurations with renumbering moves, both fault kinds at rare operations, stale-listing variants",
    "C20": "in-place set_geometry, bounded re-read, frame / partition agreement after an inferred meta, source frame unchanged, joint compute, packing as action and observation, reordered columns=",
}
for _k, _v in ADDED.items():
    CHECKS[_k]["text"] = CHECKS[_k]["text"] + " Added dimensions: " + _v + "."


def build():
    props = [json.loads(l) for l in open(os.path.join(VERIF, "properties.jsonl"))]
    checks = []
    na = []
    for p in props:
        pid = p["id"]
        if pid in CHECKS:
            c = CHECKS[pid]
            checks.append({
                "property_id": pid,
                "quick_cmd": f"./check {pid} --tier quick",
                "thorough_cmd": f"./check {pid} --tier thorough",
                "evidence_file": f"/verif/evidence/{pid}.json",
                "replay_cmd_template": f"./check {pid} --replay {{path}}",
                "engine": c["engine"],
                "level_claimed": {"category": c.get("category", "model_checking"), "text": c["text"],
                                  "design_ref": "DESIGN.md " + c["ref"]},
                "level_note": c.get("note", "") + BASE_NOTE,
                "technique": c["technique"],
            })
        else:
            na.append({"property_id": pid,
                       "reason": NOT_YET.get(pid, "check not built yet (work in progress, see DESIGN.md §10 work plan); "
                                                  "the property is in scope of the TLA+ technique")})
    m = {
        "version": 1,
        "setup_cmd": "./setup.sh",
        "hooks": {
            "guard": "SPATIALPANDAS_VERIF",
            "enable": "environment variable SPATIALPANDAS_VERIF=1 (set by /verif/check); spatialpandas is an editable "
                      "install resolving to /repo, so checks always run the working tree",
            "baseline_off_cmd": "cd /repo && env -u SPATIALPANDAS_VERIF /venv/bin/python -m pytest -ra -q -p no:cacheprovider "
                                "--timeout=900 --continue-on-collection-errors",
            "source_commits": HOOK_COMMITS,
            "add_only": True,
        },
        "engines": [{"name": "tlc", "path": "/verif/spec", "serves_properties": sorted(CHECKS),
                     "kind_free_text": "explicit TLA+ specification checked with TLC; conformance by replay of TLC states "
                                       "into the code and by TLC validation of traces recorded from the code"}],
        "checks": checks,
        "not_applicable": na,
        "notes": "See /verif/DESIGN.md. Exit 0 = held (KNOWN-FINDING lines possible), 1 = VIOLATION, 2 = machinery failure.",
    }
    with open(os.path.join(VERIF, "MANIFEST.json"), "w") as f:
        json.dump(m, f, indent=1)
    return m


HOOK_COMMITS = ['9a22d55']

if __name__ == "__main__":
    m = build()
    print("checks:", [c["property_id"] for c in m["checks"]], "n/a:", len(m["not_applicable"]))
