"""C12 - stored partition bounds are the true extents; pruning never loses a row.

design       : MC_ParquetDS - partition numbers travel as strings (file names, JSON keys); natural sort / integer conversion
               restores numeric order for 1..16 partitions, and is needed as soon as there are more than ten.
code -> spec : datasets written by DaskGeoDataFrame.to_parquet and pack_partitions_to_parquet (1..16 partitions, two geometry
               columns, one or two datasets combined by list / glob); for every geometry column the recorded bounds
               (_partition_bounds, partition_bounds of the column series, the JSON in _common_metadata) and the elements actually
               loaded per partition form "bounds" records; read_parquet_dask(bounds=box, geometry=g) forms "prune" records
               (which partitions came back, which bounds are reported); both judged by Trace_ParquetDS."""
from __future__ import annotations

import json
import math
import os
import shutil
import tempfile

import numpy as np
import pandas as pd
import pyarrow.parquet as pq

from . import geom
from .core import Check
from .frames import enc_bounds
from .tlc import run_tlc, validate_trace

# (corner orders: normal, both axes reversed, only y reversed, only x reversed)
BOXES = [(0, 0, 100, 100), (3, 3, 3, 3), (5, 0, 9, 40), (9, 40, 5, 0), (5, 40, 9, 0), (30, 0, 10, 12), (-50, -50, -40, -40), (0, 0, 4, 0), (12, 12, 40, 13), (2, 2, 2, 9)]


def frame(rng, n, sites=0):
    import spatialpandas as sp
    xs = [rng.randrange(0, 40) for _ in range(n)]
    if sites:                       # only a few distinct locations (stacks of identical points): requested output partitions come out empty
        base = [3, 17, 31, 38][:sites]
        xs = [base[i % sites] for i in range(n)]
    pts = [geom.El([[[[x, (7 * x + i) % 23 if not sites else (7 * x) % 23]]]]) for i, x in enumerate(xs)]
    lines = [geom.El([[[[60 - x, i % 5], [61 - x + i % 3, 3 + i % 4]]]]) for i, x in enumerate(xs)]
    if n > 4:
        pts[n // 2] = geom.NULL
        lines[1] = geom.El([[[]]])
    df = sp.GeoDataFrame({"id": np.arange(1, n + 1), "west_east": geom.make_array("point", pts), "east_west": geom.make_array("line", lines)})
    return df, {"west_east": ("point", pts), "east_west": ("line", lines)}


def rows_of(table):
    return [[enc_bounds(table[c].iloc[k]) for c in ("x0", "y0", "x1", "y1")] for k in range(len(table))]


def run(tier: str, seed: int) -> int:
    import dask
    import dask.dataframe as dd
    import spatialpandas as sp
    from spatialpandas.io import read_parquet_dask
    chk = Check("C12", tier, seed)
    rng = chk.rng
    chk.notes["rule"] = ("datasets: {to_parquet, pack_partitions_to_parquet} x partitions in {1, 2, 3, 7, 11, 12, 16} x two geometry columns x geometry= "
                         "choice x {single, list of two, glob}; records: recorded-vs-loaded bounds per column (3 observation points) and pruning for "
                         "8 boxes (touching an extent exactly, reversed corners, disjoint, degenerate); non-trivial = record over >= 11 partitions, or a "
                         "prune record keeping some but not all partitions")
    chk.assumptions = ["a partition whose recorded extent is NaN (only missing / empty geometries) may be kept or dropped by bounds= (it holds no row that "
                       "intersects anything); all other partitions must be kept exactly when their extent overlaps the box"]
    quick = tier == "quick"
    r = run_tlc("MC_ParquetDS", cfg=dict(constants=dict(MaxParts=16), invariants=["NumericOrder", "Sensitive"]), timeout=3000)
    chk.add_tlc(r)
    if r.violated:
        chk.violation("spec", "MC_ParquetDS: " + str(r.violated), "", ctx=dict(site="spec"))
    tmp = tempfile.mkdtemp(prefix="c12-", dir=os.environ.get("TMPDIR") or "/var/tmp")
    recs, meta = [], []
    try:
        with dask.config.set(scheduler="synchronous"):
            counts = [1, 3, 11, 16] if quick else [1, 2, 3, 7, 11, 12, 16]
            dsno = 0
            for writer in ("to_parquet", "pack", "to_parquet_filtered"):
                for nparts in counts:
                    for rep in range(1 if quick else 3):
                        dsno += 1
                        n = max(nparts * 2 + rng.randrange(0, 5), 6)
                        df, cols = frame(rng, n if not (writer == "pack" and dsno % 2 == 0) else max(n, 24), sites=3 if (writer == "pack" and dsno % 2 == 0) else 0)
                        n = len(df)
                        active = ["west_east", "east_west"][dsno % 2]
                        path = os.path.join(tmp, f"ds{dsno}", "a.parq")
                        os.makedirs(os.path.dirname(path))
                        ddf = dd.from_pandas(df.set_geometry(active), npartitions=min(nparts, n))
                        if dsno % 3 == 1:
                            # history: ANOTHER dataset (other extents, other partition count) was written to and read from this very path
                            # earlier in the process, then removed - what is recorded / reported now must be about the dataset stored now
                            decoy, _ = frame(rng, 7)
                            decoy["west_east"] = geom.make_array("point", [geom.El([[[[500 + i, 700 + i]]]]) for i in range(7)])
                            dd.from_pandas(decoy.set_geometry(active), npartitions=2).to_parquet(path)
                            _ = read_parquet_dask(path).geometry.total_bounds
                            _ = read_parquet_dask(path, bounds=(0, 0, 1000, 1000)).npartitions
                            shutil.rmtree(path)
                        try:
                            if writer == "to_parquet":
                                ddf.to_parquet(path)
                            elif writer == "to_parquet_filtered":
                                # history: the frame's partition bounds are cached (index touched, cx used), THEN rows on the partitions'
                                # extents are filtered away, and the selection is written: the recorded bounds must be those of the stored rows
                                ddf.partition_sindex  # noqa: B018
                                _ = ddf.cx[0:1, 0:1]
                                drop = [int(i) for i in df["id"] if int(i) % 3 == 1]
                                ddf = ddf[~ddf["id"].isin(drop)]
                                ddf.to_parquet(path)
                            else:
                                ddf.pack_partitions_to_parquet(path, npartitions=nparts, p=8)
                        except Exception as ex:  # noqa: BLE001
                            chk.notes["writer_raised"] = chk.notes.get("writer_raised", 0) + 1
                            continue
                        paths = [("single", path)]
                        if dsno % 3 == 0:
                            path2 = os.path.join(tmp, f"ds{dsno}", "0b.parq")          # sorts before a.parq in a glob
                            df2, _ = frame(rng, 6)
                            dd.from_pandas(df2.assign(id=df2["id"] + 1000).set_geometry(active), npartitions=2).to_parquet(path2)
                            paths = [("list", [path, path2]), ("glob", os.path.join(tmp, f"ds{dsno}", "*.parq"))]
                        for how, ptharg in paths:
                            for g in (None, "west_east", "east_west"):
                                info = dict(writer=writer, nparts=nparts, how=how, geometry=g, dataset=dsno)
                                full = read_parquet_dask(ptharg, geometry=g)
                                chk.count()
                                loaded = [full.get_partition(k).compute() for k in range(full.npartitions)]
                                for col in ("west_east", "east_west"):
                                    kind = "point" if col == "west_east" else "line"
                                    parts = [[dict(null=e["null"], g=e["g"]) for e in geom.from_array(kind, p[col].array)] for p in loaded]
                                    tables = {"_partition_bounds": full._partition_bounds.get(col) if isinstance(full._partition_bounds, dict) else None,
                                              "series.partition_bounds": full[col].partition_bounds}
                                    for where, tb in tables.items():
                                        if tb is None:
                                            chk.violation(f"nobounds|{where}|{writer}", f"no recorded bounds for column {col} ({where}); {info}", "", ctx=dict(site=where))
                                            continue
                                        recs.append(dict(op="bounds", parts=parts, recorded=rows_of(tb)))
                                        meta.append(dict(info, col=col, where=where, nontriv=len(parts) >= 11))
                                # the JSON itself (single datasets): keys are strings; values per partition number
                                if how == "single" and g is None:
                                    md = pq.read_metadata(os.path.join(path, "_common_metadata")).metadata
                                    spatial = json.loads(md[b"spatialpandas"].decode())
                                    for col in ("west_east", "east_west"):
                                        kind = "point" if col == "west_east" else "line"
                                        pbj = spatial["partition_bounds"][col]
                                        k = len(loaded)
                                        try:
                                            rec_rows = [[enc_bounds(pbj[c][str(j)]) for c in ("x0", "y0", "x1", "y1")] for j in range(k)]
                                        except KeyError as ex:
                                            chk.violation(f"json|{writer}", f"_common_metadata partition_bounds of {col} lacks key {ex}; keys {sorted(pbj['x0'])}; {info}", "", ctx=dict(site="_common_metadata"))
                                            continue
                                        parts = [[dict(null=e["null"], g=e["g"]) for e in geom.from_array(kind, p[col].array)] for p in loaded]
                                        recs.append(dict(op="bounds", parts=parts, recorded=rec_rows))
                                        meta.append(dict(info, col=col, where="_common_metadata JSON", nontriv=k >= 11))
                                # pruning
                                act = g or "west_east"
                                rec_act = rows_of(full._partition_bounds[act])
                                part_ids = [tuple(p["id"]) for p in loaded]
                                for B in (BOXES[: 6] if quick else BOXES):
                                    pr = read_parquet_dask(ptharg, geometry=g, bounds=B)
                                    got_parts = [tuple(pr.get_partition(k).compute()["id"]) for k in range(pr.npartitions)]
                                    got_parts = [t for t in got_parts if t or pr.npartitions > 1 or True]
                                    kept = []
                                    okmap = True
                                    for t in got_parts:
                                        if t in part_ids and t:
                                            kept.append(part_ids.index(t) + 1)
                                        elif t == () and pr.npartitions == 1 and len(pr.compute()) == 0:
                                            pass          # "no partition kept" is returned as one empty partition
                                        else:
                                            okmap = False
                                    if not okmap:
                                        chk.violation(f"prune-parts|{writer}|{how}", f"read_parquet_dask(bounds={B}, geometry={g}) returned partitions that are not "
                                                      f"whole stored partitions: {got_parts}; {info}", "", ctx=dict(site="read_parquet_dask.bounds", mode="partitions"))
                                        continue
                                    reported = rows_of(pr._partition_bounds[act]) if isinstance(pr._partition_bounds, dict) and act in pr._partition_bounds and kept else []
                                    recs.append(dict(op="prune", recorded=rec_act, box=list(B), kept=kept, reported=reported))
                                    meta.append(dict(info, box=B, where="bounds=", col=act, nontriv=0 < len(kept) < len(part_ids)))
                                    # every row intersecting the box is still there
                                    hit = [int(i) for i, h in zip(full.compute()["id"], full.compute()[act].intersects_bounds(B)) if h]
                                    have = set(int(i) for i in pr.compute()["id"]) if kept else set()
                                    if not set(hit) <= have:
                                        chk.violation(f"prune-rows|{writer}|{how}|{g}", f"read_parquet_dask(bounds={B}, geometry={g}) lost rows that intersect the box: "
                                                      f"{sorted(set(hit) - have)}; {info}", "", ctx=dict(site="read_parquet_dask.bounds", mode="rows"))
                                    if kept:
                                        for col2 in ("west_east", "east_west"):
                                            want2 = [rows_of(full._partition_bounds[col2])[k - 1] for k in kept]
                                            if rows_of(pr._partition_bounds[col2]) != want2:
                                                chk.violation(f"prune-othercol|{writer}", f"after bounds={B} the reported bounds of column {col2} are not those of the kept "
                                                              f"partitions {kept}; {info}", "", ctx=dict(site="read_parquet_dask.bounds", mode="reported"))
            # coordinates that need all 17 significant digits (thirds, sevenths): what is recorded must be the extents bit for bit, and a box
            # that touches a partition's extreme coordinate exactly must keep that partition (float comparison, outside the integer model)
            for writer in ("to_parquet", "pack"):
                n = 18
                xs = [(7 * i % 19) / 3.0 + 0.1 for i in range(n)]
                ys = [(5 * i % 17) / 7.0 - 0.3 for i in range(n)]
                fdf = sp.GeoDataFrame({"id": np.arange(n), "geometry": geom.PointArray([[x, y] for x, y in zip(xs, ys)])})
                path = os.path.join(tmp, f"frac_{writer}.parq")
                fddf = dd.from_pandas(fdf, npartitions=3)
                if writer == "to_parquet":
                    fddf.to_parquet(path)
                else:
                    fddf.pack_partitions_to_parquet(path, npartitions=3, p=10)
                back = read_parquet_dask(path)
                rec_tb = back._partition_bounds["geometry"]
                chk.count()
                for k in range(back.npartitions):
                    part = back.get_partition(k).compute()
                    true = [float(v) for v in part.geometry.array.total_bounds]
                    got = [float(rec_tb[c].iloc[k]) for c in ("x0", "y0", "x1", "y1")]
                    if got != true:
                        chk.violation(f"frac-bounds|{writer}", f"{writer}: recorded bounds of partition {k} {got} are not the extents of the rows stored {true} (coordinates k/3 + 0.1, k/7 - 0.3)",
                                      "", ctx=dict(site="_partition_bounds", writer=writer, mode="precision"))
                        break
                    for box in ((true[0], true[1], true[0], true[3]), (true[2], true[1], true[2] + 1.0, true[3])):       # touching the extreme x exactly
                        kept = set(int(i) for i in read_parquet_dask(path, bounds=box).compute()["id"])
                        hit = set(int(i) for i, h in zip(part["id"], part.geometry.array.intersects_bounds(box)) if h)
                        if not hit <= kept:
                            chk.violation(f"frac-prune|{writer}", f"{writer}: bounds={box} (touching partition {k}'s extreme x) lost rows {sorted(hit - kept)}", "",
                                          ctx=dict(site="read_parquet_dask.bounds", writer=writer, mode="precision"))
                            break
    finally:
        shutil.rmtree(tmp, ignore_errors=True)
    verdicts, tres = validate_trace("Trace_ParquetDS", recs, timeout=3000)
    chk.add_tlc(tres)
    chk.traces += len(recs)
    tally = {}
    for (rec, st), info in zip(verdicts, meta):
        v = st["verdict"]
        tally[v] = tally.get(v, 0) + 1
        if v == "ok" and info["nontriv"]:
            chk.nontrivial_case(hash(repr(rec)))
        if v != "ok":
            short = {k: (x if k not in ("parts",) else f"<{len(x)} partitions>") for k, x in rec.items()}
            chk.violation(f"{rec['op']}|{info['writer']}|{info['where']}|{info['how']}|{info.get('geometry')}", f"Trace_ParquetDS verdict '{v}': {info}\n  {short}"[:3000],
                          f"# {info}", ctx=dict(site=info["where"], mode=v, writer=info["writer"]))
    chk.notes["trace_verdicts"] = tally
    if recs:
        chk.sample({k: v for k, v in recs[-1].items()})
    return chk.finish()
