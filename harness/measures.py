"""Shared part of C13 / C14 / C15: MC_Measure generation, arrays with derivations, comparison helpers."""
from __future__ import annotations

import math

import numpy as np

from . import geom
from .core import Check
from .tlaval import iter_dump
from .tlc import MachineryError, run_jobs, shard_jobs

INVARIANTS = ["DesignBounds", "DesignArea", "DesignLength", "DesignOriented", "Theorems"]


def generate(chk: Check, families, invariants=INVARIANTS):
    """families: [(fam, G, nshards, which)] -> {fam: [(kind, elem, expect)]}, plus design verdict."""
    jobs = []
    for fam, G, ns, which in families:
        jobs += shard_jobs("MC_Measure", dict(constants=dict(G=G, Fam=fam), invariants=invariants), ns, which=which,
                           dump=True, continue_=True, timeout=3000)
    results = run_jobs(jobs)
    chk.add_tlc(results)
    out = {}
    i = 0
    bad = []
    for fam, G, ns, which in families:
        n = len(list(which)) if which is not None else ns
        rs = results[i:i + n]
        i += n
        cases = []
        for r in rs:
            if r.violated:
                bad.append((fam, r.violated, r.out[r.out.index("Error:"):][:700]))
            for st in iter_dump(r.dump):
                cases.append((st["kind"], st["elem"], st["expect"]))
        out[fam] = cases
    return out, bad


def batches(cases, rng, size=60):
    """Group the cases by kind into arrays of <= size elements with missing elements interleaved
    (first, last, in the middle) -> [(kind, [elem], [expect or None])]"""
    by_kind = {}
    for k, e, x in cases:
        by_kind.setdefault(k, []).append((e, x))
    out = []
    for kind, lst in by_kind.items():
        for s in range(0, len(lst), size):
            chunk = lst[s:s + size]
            elems, exps = [], []
            if (s // size) % 2 == 0:
                elems.append(geom.NULL)
                exps.append(None)
            for j, (e, x) in enumerate(chunk):
                elems.append(e)
                exps.append(None if e["null"] else x)
                if j % 11 == 5:
                    elems.append(geom.NULL)
                    exps.append(None)
            if (s // size) % 3 == 0:
                elems.append(geom.NULL)
                exps.append(None)
            out.append((kind, elems, exps))
    return out


def derivations(arr, n, rng):
    """Derived arrays with the selection of source positions each one holds: [(name, derived, positions)];
    position -1 = a missing element introduced by the derivation (take with fill)."""
    out = [("whole", arr, list(range(n)))]
    if n == 0:
        return out
    k = max(1, n // 3)
    out.append((f"head[:{k}]", arr[:k], list(range(k))))
    out.append((f"tail[{n - k}:]", arr[n - k:], list(range(n - k, n))))
    a, b = sorted([rng.randrange(n + 1), rng.randrange(n + 1)])
    out.append((f"slice[{a}:{b}]", arr[a:b], list(range(a, b))))
    out.append(("slice-of-slice", arr[1:][: max(0, n - 2)][1:], list(range(2, n - 1)) if n >= 3 else []))
    out.append(("step[::-2]", arr[::-2], list(range(n - 1, -1, -2))))
    idx = [rng.randrange(n) for _ in range(min(n, 12))]
    out.append((f"take{idx}", arr.take(np.array(idx)), idx))
    idxf = [rng.choice([-1, rng.randrange(n)]) for _ in range(min(n, 8))]
    out.append((f"take_fill{idxf}", arr.take(np.array(idxf), allow_fill=True), idxf))
    mask = np.array([rng.random() < 0.5 for _ in range(n)])
    out.append(("mask", arr[mask], [i for i in range(n) if mask[i]]))
    out.append(("concat(tail,head)", type(arr)._concat_same_type([arr[n - k:], arr[:k]]), list(range(n - k, n)) + list(range(k))))
    out.append(("copy", arr.copy(), list(range(n))))
    return out


def val(v, f):
    """model coordinate -> concrete float under the affine component f (x or y)"""
    return f(v)


def bounds_row(b, aff):
    return [aff.x(b[0]), aff.y(b[1]), aff.x(b[2]), aff.y(b[3])]


def same(a, b):
    a = float(a)
    b = float(b)
    return (math.isnan(a) and math.isnan(b)) or a == b


def rows_equal(got, want):
    return len(got) == len(want) and all(same(x, y) for x, y in zip(got, want))


def total_from_rows(rows):
    """aggregate expected per-element bounds rows (already from the oracle) into the expected total bounds:
    min / max over the defined entries of each column (the oracle SPMeasure!TotalBounds restated on rows -
    also validated against TLC through Trace_Measure records)"""
    cols = list(zip(*rows)) if rows else [[], [], [], []]
    out = []
    for c, fn in zip(cols, (min, min, max, max)):
        vals = [v for v in c if not math.isnan(v)]
        out.append(fn(vals) if vals else math.nan)
    return out


def isqrt_exact(n):
    r = math.isqrt(n)
    return r if r * r == n else None


def tiled(arr, total=70001):
    """A large array made of whole copies of `arr` plus a head remainder (length `total`, deliberately not a power of two nor a
    multiple of common chunk sizes) and the source position of each of its elements: results of element-wise operations on it must be
    the tiled results of the small array (kernels may switch to chunked / parallel builds above a size threshold)."""
    n = len(arr)
    k, r = divmod(total, n)
    big = type(arr)._concat_same_type([arr] * k + ([arr[:r]] if r else []))
    pos = np.concatenate([np.tile(np.arange(n), k), np.arange(r)])
    return big, pos


def same_array(a, b):
    a, b = np.asarray(a), np.asarray(b)
    return a.shape == b.shape and (np.array_equal(a, b, equal_nan=True) if a.dtype.kind == "f" else np.array_equal(a, b))
