"""C08 - a geometry's Hilbert distance is the curve position of its bbox centre.

model        : MC_HilbertDist - the any-p bit formulation of the cell equals the arithmetic one; monotone, clamps,
               upper edge -> last cell, zero extent widened.
code -> spec : every call of hilbert_distance made by the driver (all seven kinds, missing / empty elements, default and
               explicit total_bounds incl. degenerate and non-containing ones, p up to 31, sequence types, affine images,
               slices / takes / GeoSeries) is logged with the element itself; Trace_HilbertDist recomputes
               bounds -> centre -> cell -> curve digits and compares (equality on the exact domain, range elsewhere).
direct       : the total_bounds argument is not modified; values do not depend on position / neighbours / slicing."""
from __future__ import annotations

import os

import numpy as np
import pandas as pd

from . import c01, geom
from .c07 import digits
from .core import Check
from .tlc import run_tlc, validate_trace

TBS = [None, [0, 0, 8, 8], [-8, -8, 8, 8], [0, 0, 16, 4], [2, 2, 4, 4], [3, 0, 3, 8], [0, 5, 8, 5], [3, 3, 3, 3], [0, 0, 6, 5],
       [1, 1, 2, 3], [-4, 6, 4, 7]]
PS = [1, 2, 5, 10, 15, 16, 31]
IMAGES = [geom.IDENT, geom.Affine(0.25, -1.0, 0.5, 3.0, name="dyadic"), geom.Affine(1024.0, 2.0 ** 24, 1024.0, -(2.0 ** 24), name="big"),
          geom.Affine(2.0, -9.0, 4.0, 5.0, name="neg"), geom.Affine(1.0, -40.0, 1.0, 2.0 ** 20, name="translate"),
          # float32 coordinates that are exact, but whose SUM lo + hi is not representable in float32 (half-grid at 2^22): the bbox centre
          # must be taken in double precision
          geom.Affine(0.5, 2.0 ** 22, 0.5, 2.0 ** 22, name="half@2^22")]


def catalogue(rng, kind, n):
    els = []
    for _ in range(n):
        e = c01.rand_element(rng, kind, 4)
        if not e["null"]:
            for part in e["g"]:
                for ring in part:
                    for v in ring:
                        v[0] += 4
                        v[1] += 4
        els.append(e)
    # corner elements so that the array's own extent is [0,8] x [0,4]-like powers of two; empty and missing ones
    def pt(x, y):
        return {"point": geom.El([[[[x, y]]]]), "multipoint": geom.El([[[[x, y]]]]), "line": geom.El([[[[x, y], [x, y]]]]),
                "ring": geom.El([[[[x, y], [x, y]]]]), "multiline": geom.El([[[[x, y]]]]),
                "polygon": geom.El([[[[x, y], [x, y], [x, y], [x, y]]]]), "multipolygon": geom.El([[[[x, y], [x, y], [x, y], [x, y]]]])}[kind]
    empty = geom.El([[[[geom.NAN, geom.NAN]]]]) if kind == "point" else geom.El([[[]]]) if kind != "multipolygon" else geom.El([])
    return [pt(0, 0)] + els + [geom.NULL, empty, pt(8, 8)]


def container(tb, how):
    if how == 0:
        return list(tb)
    if how == 1:
        return tuple(tb)
    if how == 2:
        return np.array(tb, dtype="float64")
    if how == 3:
        return pd.Series(tb, index=["x0", "y0", "x1", "y1"], dtype="float64")
    return [int(v) if float(v).is_integer() else v for v in tb]       # ints where possible


def same_container(a, b):
    if isinstance(a, np.ndarray):
        return isinstance(b, np.ndarray) and np.array_equal(a, b)
    if isinstance(a, pd.Series):
        return a.equals(b)
    return type(a) is type(b) and a == b


def run(tier: str, seed: int) -> int:
    import copy
    import spatialpandas as sp
    chk = Check("C08", tier, seed)
    rng = chk.rng
    chk.notes["rule"] = ("every hilbert_distance call of the driver (7 kinds x catalogue with missing/empty elements x 11 total_bounds "
                         "choices x p in {1,2,5,10,15,16,31} x container types x affine images x derivations) is one trace record "
                         "validated by Trace_HilbertDist; non-trivial = record judged on the exact domain with a defined bbox")
    chk.assumptions = ["equality is demanded where the total_bounds extents are powers of two (the code's scaling is exact there); elsewhere only "
                       "range and independence are decided", "conversion of int64 distances to base-4 digit sequences in the harness"]
    r = run_tlc("MC_HilbertDist", cfg=dict(constants=dict(PMax=6 if tier == "quick" else 8, CMax=4),
                                           invariants=["BitsAgree", "Monotone", "Clamps", "InGrid"]), workers=8, timeout=3000)
    chk.add_tlc(r)
    if r.violated:
        chk.violation("spec", "MC_HilbertDist: the specification of the cell is inconsistent: " + str(r.violated), "", ctx=dict(site="spec"))
    recs = []
    ncat = 5 if tier == "quick" else 25
    for kind in geom.KINDS:
        elems = catalogue(rng, kind, ncat)
        for ai, aff in enumerate(IMAGES):
            st0 = ["float64", "float32", "float64", "int32", "int64", "float32"][ai]
            subtype = st0 if geom.representable(kind, elems, aff, st0) else "float64"
            if np.dtype(subtype).kind == "i" and (not aff.integral() or any(geom.has_special(e) for e in elems)):
                subtype = "float64"
            arr = geom.make_array(kind, elems, aff, subtype)
            n = len(elems)
            for ti, tb in enumerate(TBS):
                if ti == len(TBS) // 2 + ai % 2:
                    # history: from here on the SAME object has a spatial index (built lazily by a query, or explicitly) - the
                    # distances of its elements must not depend on that
                    if ai % 2:
                        arr.build_sindex(page_size=2)
                    arr.sindex.intersects((-1e9, -1e9, 1e9, 1e9))
                for p in (PS if tier == "thorough" else [PS[(ti + ai) % len(PS)], PS[(ti + ai + 3) % len(PS)]]):
                    if tb is None:
                        d = arr.hilbert_distance(p=p)
                        if len(d) != n:
                            chk.violation(f"length|{kind}", f"{type(arr).__name__}.hilbert_distance(p={p}) returns {len(d)} values for {n} elements "
                                          f"(index built on the object: {ti >= len(TBS) // 2 + ai % 2})", "", ctx=dict(site="hilbert_distance", mode="length"))
                            continue
                        chk.count(n)
                        for i in range(n):
                            recs.append(dict(op="hdd", kind=kind, elems=[dict(null=e["null"], g=e["g"]) for e in elems], i=i + 1, p=p,
                                             dg=digits(d[i], p, 2), raw=int(d[i])))
                        # one-element arrays (slices): the default total bounds are the element's own box
                        for i in range(0, n, 3):
                            if elems[i]["null"] or geom.has_special(elems[i]):
                                continue
                            d1 = arr[i:i + 1].hilbert_distance(p=p)
                            if len(d1) == 1:
                                recs.append(dict(op="hdd", kind=kind, elems=[dict(null=False, g=elems[i]["g"])], i=1, p=p, dg=digits(d1[0], p, 2), raw=int(d1[0])))
                        continue
                    ctb = [aff.x(tb[0]), aff.y(tb[1]), aff.x(tb[2]), aff.y(tb[3])]
                    arg = container(ctb, (ti + p) % 5)
                    keep = copy.deepcopy(arg)
                    try:
                        d = arr.hilbert_distance(total_bounds=arg, p=p)
                    except Exception as ex:  # noqa: BLE001
                        chk.violation(f"raises|{kind}|{type(arg).__name__}|{tb}", f"{type(arr).__name__}.hilbert_distance(total_bounds={arg!r}, p={p}) raises "
                                      f"{type(ex).__name__}: {ex}", f"# {kind} total_bounds={arg!r} p={p}\n",
                                      ctx=dict(site="hilbert_distance", mode="raises", container=type(arg).__name__))
                        continue
                    if len(d) != n:
                        chk.violation(f"length|{kind}", f"{type(arr).__name__}.hilbert_distance(total_bounds={arg!r}, p={p}) returns {len(d)} values for {n} "
                                      f"elements (index built on the object: {ti >= len(TBS) // 2 + ai % 2})", "", ctx=dict(site="hilbert_distance", mode="length"))
                        continue
                    chk.count(n)
                    if not same_container(keep, arg):
                        chk.violation(f"mutates|{type(arg).__name__}", f"hilbert_distance modified its total_bounds argument: {keep!r} -> {arg!r}",
                                      f"# total_bounds={keep!r} p={p}\n", ctx=dict(site="hilbert_distance", mode="mutates", container=type(arg).__name__))
                    # the widening of a zero extent adds 1.0 in DATA units, which is not scale invariant: such calls are
                    # compared with the model only under unit-scale images (range is still checked for all)
                    degenerate = tb[0] == tb[2] or tb[1] == tb[3]
                    if degenerate and (aff.sx != 1.0 or aff.sy != 1.0):
                        for i in range(n):
                            if not (0 <= int(d[i]) < 4 ** p):
                                chk.violation(f"range|{kind}", f"hilbert_distance value {int(d[i])} outside [0, 4^{p})", "", ctx=dict(site="hilbert_distance", mode="range"))
                    else:
                        for i in range(n):
                            recs.append(dict(op="hd", kind=kind, elem=dict(null=elems[i]["null"], g=elems[i]["g"]), tb=tb, p=p,
                                             dg=digits(d[i], p, 2), raw=int(d[i])))
                    # independence: position, neighbours, slicing, GeoSeries
                    if (ti + ai) % 3 == 0:
                        perm = list(range(n))
                        rng.shuffle(perm)
                        variants = [("take", arr.take(np.array(perm)), perm), ("slice", arr[2:], list(range(2, n))),
                                    ("single", arr[n // 2:n // 2 + 1], [n // 2])]
                        for name, darr, pos in variants:
                            dd = darr.hilbert_distance(total_bounds=container(ctb, 1), p=p)
                            if [int(v) for v in dd] != [int(d[q]) for q in pos]:
                                chk.violation(f"independence|{kind}|{name}", f"{type(arr).__name__}.hilbert_distance depends on the array, not only on the "
                                              f"element: {name} gives {list(map(int, dd))}, source gives {[int(d[q]) for q in pos]} (tb={tb}, p={p})",
                                              f"# {kind} {name}\n", ctx=dict(site="hilbert_distance", mode="independence"))
                        gs = sp.GeoSeries(arr, index=[f"r{i}" for i in range(n)]).hilbert_distance(total_bounds=container(ctb, 0), p=p)
                        if list(gs.index) != [f"r{i}" for i in range(n)] or [int(v) for v in gs.values] != [int(v) for v in d]:
                            chk.violation(f"geoseries|{kind}", "GeoSeries.hilbert_distance differs from the array's", "", ctx=dict(site="GeoSeries.hilbert_distance"))
    # partitioned (Dask) frames: the distances Hilbert packing assigns are those of the unpartitioned array for the frame's own total
    # bounds - also after the frame's partition bounds were cached and rows (the extreme ones) were filtered away
    import dask
    import dask.dataframe as dd
    with dask.config.set(scheduler="synchronous"):
        for kind in (geom.KINDS[:4] if tier == "quick" else geom.KINDS):
            elems = [e for e in catalogue(rng, kind, 8) if not e["null"] and not geom.has_special(e)]
            elems = [e for e in elems if any(len(r) for part in e["g"] for r in part)][:10]          # elements with at least one vertex
            if len(elems) < 4:
                continue
            arr = geom.make_array(kind, elems)
            df = sp.GeoDataFrame({"id": np.arange(len(arr)), "geometry": arr})
            for npart, touched in ((2, False), (3, True)):
                ddf = dd.from_pandas(df, npartitions=min(npart, len(df)))
                if touched:
                    ddf.partition_sindex  # noqa: B018
                    _ = ddf.cx[0:1, 0:1]
                b = np.asarray(arr.bounds, dtype="float64")
                tbv = arr.total_bounds
                extreme = [i for i in range(len(arr)) if any(b[i][c] == tbv[c] for c in range(4))]
                keep = [i for i in range(len(arr)) if i not in extreme[: max(1, len(extreme) // 2)]]
                f = ddf[ddf["id"].isin(keep)]
                sub = df[df["id"].isin(keep)]
                for pp in (4, 16):
                    try:
                        packed = f.pack_partitions(npartitions=1, p=pp).compute()
                    except Exception:  # noqa: BLE001
                        continue
                    want = dict(zip(sub["id"], sub.geometry.array.hilbert_distance(total_bounds=sub.geometry.array.total_bounds, p=pp)))
                    if not touched and pp == 4:
                        # the parquet route to the same distances (and with a p other than the default)
                        import shutil
                        import tempfile
                        from spatialpandas.io import read_parquet_dask
                        td = tempfile.mkdtemp(prefix="c08-", dir=os.environ.get("TMPDIR") or "/var/tmp")
                        try:
                            f.pack_partitions_to_parquet(os.path.join(td, "d.parq"), npartitions=2, p=pp, _retry_args=dict(stop_max_attempt_number=2, wait_fixed=1))
                            back = read_parquet_dask(os.path.join(td, "d.parq")).compute()
                            badp = [(int(i), int(k), int(want[i])) for k, i in zip(back.index, back["id"]) if int(k) != int(want[i])]
                            if badp or len(back) != len(sub):
                                chk.violation(f"parquet-keys|{kind}", f"{kind}: pack_partitions_to_parquet(p={pp}) stores keys that are not the rows' Hilbert distances in the "
                                              f"2^{pp} grid: (id, got, want) {badp[:6]}", "", ctx=dict(site="hilbert_distance", mode="parquet-keys", kind=kind))
                        except Exception:  # noqa: BLE001
                            pass
                        finally:
                            shutil.rmtree(td, ignore_errors=True)
                    chk.count(len(packed))
                    bad = [(int(i), int(k), int(want[i])) for k, i in zip(packed.index, packed["id"]) if int(k) != int(want[i])]
                    if bad or len(packed) != len(sub):
                        chk.violation(f"partitioned|{kind}|{touched}", f"{kind}: Hilbert distances of a Dask frame ({npart} partitions, partition bounds cached before the row "
                                      f"filter: {touched}) differ from the unpartitioned array's for the frame's own total bounds, p={pp}: (id, got, want) {bad[:6]}", "",
                                      ctx=dict(site="hilbert_distance", mode="partitioned", kind=kind))
                        break
    for rec in recs:
        if not (0 <= rec["raw"] < 4 ** rec["p"]):
            chk.violation(f"range|{rec['kind']}", f"hilbert_distance value {rec['raw']} outside [0, 4^{rec['p']})", "", ctx=dict(site="hilbert_distance", mode="range"))
        del rec["raw"]
    verdicts, tres = validate_trace("Trace_HilbertDist", recs, timeout=3000)
    chk.add_tlc(tres)
    chk.traces += len(recs)
    tally = {}
    for rec, st in verdicts:
        v = st["verdict"]
        tally[v] = tally.get(v, 0) + 1
        e = rec["elem"] if rec["op"] == "hd" else rec["elems"][rec["i"] - 1]
        if v == "ok":
            chk.nontrivial_case(hash((rec["kind"], repr(e), repr(rec.get("tb")), rec["p"])))
        if v == "mismatch":
            py = geom.to_py(rec["kind"], e)
            cls = geom.ARRAY_TYPES[rec["kind"]].__name__
            tbtxt = rec.get("tb", "default (array's own)")
            others = "" if rec["op"] == "hd" else f" in array {[geom.to_py(rec['kind'], x) for x in rec['elems']]!r}"
            chk.violation(f"{rec['kind']}|{tbtxt}|{rec['p']}|{py!r}",
                          f"{cls}.hilbert_distance(total_bounds={tbtxt}, p={rec['p']}) of element {py!r}{others}: got digits {rec['dg']} "
                          f"(base 4), Trace_HilbertDist expects the curve position of the bbox-centre cell",
                          f"from spatialpandas.geometry import {cls}\narr = {cls}([{py!r}], dtype='float64')\n"
                          f"print(arr.hilbert_distance(total_bounds={rec.get('tb')!r}, p={rec['p']}))\n",
                          ctx=dict(site="hilbert_distance", mode="value", kind=rec["kind"]))
    chk.notes["trace_verdicts"] = tally
    chk.sample({k: v for k, v in recs[len(recs) // 3].items() if k != "elems"})
    chk.sample({k: v for k, v in recs[-1].items() if k != "elems"})
    return chk.finish()
