"""C18 - results do not depend on scheduling, thread count or concurrent use.

design       : Caches - every interleaving of 3 client threads on a check-then-build cache: each use sees a complete value equal to
               build(A) (negative control: a two-field memo fails).  PackFS - every interleaving of the proc / cat tasks: CleanFinal
               (the final dataset is unique) and NoSharedWrites (no path written by two tasks of a phase).
code -> spec : (a) N client threads hammer ONE shared frame / array / index (first, index-building, access included; switch interval
               1 us): the trace points of the caches are validated by Trace_Caches and every answer is compared with the
               single-threaded one; (b) pack_partitions_to_parquet under the threaded scheduler with random delays injected by the
               wrapping filesystem: each recorded execution must be accepted by Trace_PackFS (so an unobserved interleaving is covered
               by protocol conformance) and the dataset must equal the synchronous one.
differential : every operation of the property under NUMBA_NUM_THREADS x scheduler x workers x repetitions (one subprocess per numba
               setting): identical digests everywhere (races inside prange kernels are explored here only, not modelled)."""
from __future__ import annotations

import json
import os
import shutil
import subprocess
import sys
import threading

import numpy as np

from . import packfs
from .c19 import clean, snapshot
from .core import Check
from .packfs import Cfg
from .tlc import VERIF as VERIF_DIR, MachineryError, run_jobs, run_tlc, scratch


def shared_object_threads(chk, nthreads, rounds, seed):
    import spatialpandas as sp
    from spatialpandas import _verif
    from spatialpandas.geometry import PointArray, PolygonArray
    rng = np.random.RandomState(seed)
    n = 500
    pts = rng.randint(0, 100, size=(n, 2)).astype("float64")
    boxes = [(float(a), float(a + w), float(b), float(b + w)) for a, b, w in zip(rng.randint(0, 80, 40), rng.randint(0, 80, 40), rng.randint(1, 30, 40))]
    polys = PolygonArray([[[10.0, 10.0, 60.0, 10.0, 60.0, 70.0, 10.0, 70.0, 10.0, 10.0]]])
    ref = sp.GeoDataFrame({"id": np.arange(n), "geometry": PointArray(pts)})
    ref.build_sindex(page_size=16)
    want_cx = [list(ref.cx[b[0]:b[1], b[2]:b[3]]["id"]) for b in boxes]
    want_int = ref.geometry.array.intersects(polys[0]).tolist()
    events = []
    lock = threading.Lock()

    yrng = np.random.RandomState(seed + 99)
    coin = yrng.rand(100003) < 0.25

    def tracer(ev, fields):
        # seeded yields at the trace points widen the race windows around the cache accesses
        if coin[(len(events) * 7 + threading.get_ident()) % 100003]:
            import time
            time.sleep(0)
        with lock:
            events.append(dict(ev=ev.split(".")[1], cache=fields["cache"], obj=fields["obj"] % 1000003, thread=threading.get_ident() % 100003,
                               hit=int(bool(fields.get("hit", False))), value=(fields.get("value", 0) or 0) % 1000003))
    failures = []
    old = sys.getswitchinterval()
    sys.setswitchinterval(1e-6)
    _verif.set_tracer(tracer)
    try:
        for rd in range(rounds):
            shared = sp.GeoDataFrame({"id": np.arange(n), "geometry": PointArray(pts)})          # no index yet: first access builds it
            barrier = threading.Barrier(nthreads)

            def client(tid):
                barrier.wait()
                my = boxes[tid::nthreads] or boxes[:1]
                for rep in range(3):
                    for bi, b in enumerate(my):
                        for _ in range(3):                                                   # repeat the same box (memo-style caches)
                            if (tid + rep) % 2 == 0:
                                got = list(shared.cx[b[0]:b[1], b[2]:b[3]]["id"])
                            else:
                                ix = shared.geometry.array.sindex
                                cov, ov = ix.covers_overlaps((b[0], b[2], b[1], b[3]))
                                arr = shared.geometry.array
                                sel = np.sort(np.concatenate([cov, ov[arr.intersects_bounds((b[0], b[2], b[1], b[3]), ov)]]))
                                got = list(shared["id"].values[sel.astype(int)])
                            k = boxes.index(b)
                            if got != want_cx[k]:
                                failures.append(("cx", tid, b, len(got), len(want_cx[k])))
                    if shared.geometry.array.intersects(polys[0]).tolist() != want_int:
                        failures.append(("intersects", tid))
            ths = [threading.Thread(target=client, args=(t,)) for t in range(nthreads)]
            for t in ths:
                t.start()
            for t in ths:
                t.join()
            chk.count(nthreads)
    finally:
        _verif.set_tracer(None)
        sys.setswitchinterval(old)
    return failures, events


def concurrent_packs(chk, rounds, seed):
    """two client threads pack the SAME Dask frame into two datasets at the same time, sharing one external temp-dir format with
    {uuid}: each dataset must equal the one a lone pack produces (the packs must not meet in the scratch area)"""
    import tempfile
    import dask
    import dask.dataframe as dd
    from spatialpandas.io import read_parquet_dask
    from .fsrec import RecordingFS
    df, _ = packfs.make_frame(40, seed + 5)

    def parts_of(path):
        with dask.config.set(scheduler="synchronous"):
            f = read_parquet_dask(path)
            return [[(int(k), int(i)) for k, i in zip(p.index, p["id"])] for p in (f.get_partition(j).compute() for j in range(f.npartitions))]

    jobs = (("one.parq", 3), ("two.parq", 5))
    ref = {}
    root0 = tempfile.mkdtemp(prefix="c18cp-", dir=os.environ.get("TMPDIR") or "/var/tmp")
    try:
        os.makedirs(os.path.join(root0, "scratch"))
        with dask.config.set(scheduler="synchronous"):
            for name, k in jobs:
                dd.from_pandas(df, npartitions=3).pack_partitions_to_parquet(os.path.join(root0, name), npartitions=k, p=8, _retry_args=packfs.RETRY,
                                                                             tempdir_format=os.path.join(root0, "scratch", "t-{uuid}-{partition}"))
                ref[name] = parts_of(os.path.join(root0, name))
    finally:
        shutil.rmtree(root0, ignore_errors=True)
    for rd in range(rounds):
        root = tempfile.mkdtemp(prefix="c18cp-", dir=os.environ.get("TMPDIR") or "/var/tmp")
        os.makedirs(os.path.join(root, "scratch"))
        ddf = dd.from_pandas(df, npartitions=3)
        out = {}
        barrier = threading.Barrier(2)

        def client(name, k, rd=rd, root=root, ddf=ddf, out=out, barrier=barrier):
            fs = RecordingFS(root, delays=0.003, seed=seed * 10 + rd)
            barrier.wait()
            try:
                ddf.pack_partitions_to_parquet(os.path.join(root, name), filesystem=fs, npartitions=k, p=8, _retry_args=packfs.RETRY,
                                               tempdir_format=os.path.join(root, "scratch", "t-{uuid}-{partition}"))
                out[name] = "returned"
            except Exception as ex:  # noqa: BLE001
                out[name] = f"raised {type(ex).__name__}: {ex}"[:300]
        try:
            with dask.config.set(scheduler="synchronous"):
                ths = [threading.Thread(target=client, args=j) for j in jobs]
                for t in ths:
                    t.start()
                for t in ths:
                    t.join()
            chk.count(2)
            for name, k in jobs:
                got = parts_of(os.path.join(root, name)) if out.get(name) == "returned" else out.get(name)
                if got != ref[name]:
                    chk.violation(f"concurrent-packs|{name}", f"two client threads packing the same frame at the same time (shared external temp-dir format with {{uuid}}): dataset {name} "
                                  f"({k} partitions) is not what a lone pack produces: {str(got)[:400]}", "", ctx=dict(site="pack_partitions_to_parquet", mode="concurrent-packs"))
                    return
                chk.nontrivial_case(hash(("concurrent-packs", rd, name)))
            left = os.listdir(os.path.join(root, "scratch"))
            if left:
                chk.violation("concurrent-packs|leftover", f"concurrent packs left temporary entries {left[:5]}", "", ctx=dict(site="pack_partitions_to_parquet", mode="concurrent-leftover"))
                return
        finally:
            shutil.rmtree(root, ignore_errors=True)


def run(tier: str, seed: int) -> int:
    chk = Check("C18", tier, seed)
    quick = tier == "quick"
    chk.notes["rule"] = ("model: Caches (3 threads) and PackFS interleavings; runs: client threads sharing one object (cache trace validated, answers "
                         "compared), threaded pack_partitions_to_parquet executions validated by Trace_PackFS and compared with the synchronous dataset, "
                         "and digests of 17 operations across NUMBA_NUM_THREADS x scheduler x workers x repetitions. non-trivial = validated threaded "
                         "execution / differential cell (distinct setting)")
    chk.assumptions = ["races inside numba prange / parallel=True kernels are only explored differentially (not modelled)",
                       "CPython attribute stores are atomic (GIL) - the premise of the single-store cache pattern"]
    jobs = [dict(module="Caches", cfg=dict(spec="Spec", constants=dict(Threads={1, 2, 3}, Pattern="single_store", Keys={1, 2}), invariants=["UseSeesOwnAnswer", "CacheComplete"]),
                 workers=4, timeout=3000, name="caches"),
            dict(module="Caches", cfg=dict(spec="Spec", constants=dict(Threads={1, 2, 3}, Pattern="two_field", Keys={1, 2}), invariants=["UseSeesOwnAnswer"]),
                 workers=4, timeout=3000, name="caches-neg")]
    base = dict(NIn=3, NOut=2, Mode="inside", Overwrite=False, PrevParts=0, MaxFaults=0, RetryMax=3, FixEmptyPlaceholder=True, AllowRerun=False)
    for v in ([dict(), dict(NIn=2, NOut=3, Mode="outside_uuid")] if quick else [dict(), dict(NIn=2, NOut=3, Mode="outside_uuid"), dict(NIn=3, NOut=3), dict(NIn=2, NOut=4, Mode="outside_fixed")]):
        c = dict(base)
        c.update(v)
        jobs.append(dict(module="PackFS", cfg=dict(spec="Spec", constants=c, invariants=["CleanFinal", "NoSharedWrites"]), workers=4, timeout=3000, heap="6g", name="packfs-il"))
    results = run_jobs(jobs, parallel=4)
    chk.add_tlc(results)
    if results[0].violated:
        chk.violation("caches-model", "Caches (single_store) violates " + str(results[0].violated), "", ctx=dict(site="spec"))
    if not results[1].violated:
        raise MachineryError("Caches with Pattern = two_field passes: the model is not sensitive (vacuous)")
    design_bad = [r for r in results[2:] if r.violated]
    # (d) differential matrix in subprocesses, started first (they take the longest)
    nts = [1, 16] if quick else [1, 2, 4, 16]
    procs = []
    for nt in nts:
        for sched, w in ([("synchronous", 1), ("threads", 4)] if quick else [("synchronous", 1), ("threads", 1), ("threads", 4), ("threads", 16)]):
            env = dict(os.environ, NUMBA_NUM_THREADS=str(nt), PYTHONPATH=VERIF_DIR + ":" + os.environ.get("VERIF_REPO", "/repo"), NUMBA_DISABLE_PERFORMANCE_WARNINGS="1")
            p = subprocess.Popen([sys.executable, "-W", "ignore", "-m", "harness.c18_ops", sched, str(w), str(seed), "2" if quick else "3"], cwd=VERIF_DIR, env=env,
                                 stdout=subprocess.PIPE, stderr=subprocess.PIPE, text=True)
            procs.append(((nt, sched, w), p))
    # (a) shared object, client threads
    failures, events = shared_object_threads(chk, 8 if quick else 16, 10 if quick else 40, seed)
    for f in failures[:5]:
        chk.violation(f"shared|{f[0]}", f"a client thread sharing one GeoDataFrame with {8 if quick else 16} others got a different answer than a single-threaded caller: {f}",
                      "", ctx=dict(site="shared-object", mode=f[0]))
    if events:
        wd = scratch("caches-trace")
        path = os.path.join(wd, "cache.ndjson")
        with open(path, "w") as fh:
            for e in events[:200000]:
                fh.write(json.dumps(e) + "\n")
        r = run_tlc("Trace_Caches", cfg=dict(invariants=["AllOK", "UsesExplained"], constants={}), env={"TRACE_FILE": path}, workers=1, timeout=3000)
        chk.add_tlc(r)
        chk.traces += 1
        chk.notes["cache_events"] = len(events)
        if r.violated or r.distinct < min(len(events), 200000):
            chk.violation("cache-trace", f"the recorded cache events are not explainable by Caches (single_store): {r.violated}; {r.distinct} of {len(events)} events consumed",
                          "", ctx=dict(site="cache-trace"))
        else:
            chk.nontrivial_case("cache-trace")
    else:
        chk.notes["cache_events"] = 0
    # (b) threaded pack runs
    runs = []
    for ci, cfg in enumerate([Cfg(n=10, nin=3, nout=4, mode="inside", seed=seed), Cfg(n=10, nin=3, nout=3, mode="outside_uuid", seed=seed + 1),
                              Cfg(n=10, nin=3, nout=7, mode="inside", seed=seed + 3, dup=3)] +      # empty output partitions between non-empty ones

                             ([] if quick else [Cfg(n=12, nin=4, nout=5, mode="outside_fixed", seed=seed + 2)])):
        ref = packfs.run_pack(cfg, keep=True)
        want = clean(snapshot(ref.root))
        shutil.rmtree(ref.root, ignore_errors=True)
        assign = packfs.reference_assign(ref)
        for w in ([2, 8] if quick else [1, 2, 4, 16]):
            for s in range(2 if quick else 4):
                r = packfs.run_pack(cfg, scheduler="threads", workers=w, delays=0.004, seed=seed * 100 + s, keep=True)
                got = clean(snapshot(r.root))
                shutil.rmtree(r.root, ignore_errors=True)
                chk.count()
                if r.status != "returned" or got != want:
                    chk.violation(f"threads|{cfg.key()}|{w}", f"pack_partitions_to_parquet under the threaded scheduler ({w} workers) differs from the synchronous run: status {r.status} "
                                  f"{getattr(r, 'error', '')}; {cfg}", f"# {cfg}", ctx=dict(site="pack_partitions_to_parquet", mode="threads"))
                runs.append((r, assign, None))
    for (r, _, _), (v, detail, res) in zip(runs, packfs.validate_runs(runs)):
        if res is not None:
            chk.add_tlc(res)
        chk.traces += 1
        if v != "accepted":
            chk.violation(f"trace|{v}|{r.cfg.key()}", f"threaded execution not accepted by Trace_PackFS ({v}): {r.cfg}\n  {detail}"[:2500], f"# {r.cfg}",
                          ctx=dict(site="pack_partitions_to_parquet", mode=v))
        else:
            chk.nontrivial_case(hash((r.cfg.key(), len(r.events), id(r))))
    concurrent_packs(chk, 3 if quick else 12, seed)
    # (d) collect the differential matrix
    digests = {}
    for key, p in procs:
        out, err = p.communicate(timeout=3000)
        line = [ln for ln in out.splitlines() if ln.startswith("C18OPS ")]
        if p.returncode != 0 or not line:
            chk.violation(f"ops|{key}", f"operations under NUMBA_NUM_THREADS={key[0]} scheduler={key[1]} workers={key[2]} failed: rc={p.returncode}\n{err[-1500:]}", "",
                          ctx=dict(site="differential", mode="raises"))
            continue
        digests[key] = json.loads(line[0][7:])
        chk.count(len(digests[key]))
    if digests:
        keys = sorted(digests)
        base_d = digests[keys[0]]
        for k in keys:
            for name, d in digests[k].items():
                if d == "UNSTABLE":
                    chk.violation(f"unstable|{name}", f"operation {name} gives different results on repeated runs under NUMBA_NUM_THREADS={k[0]} scheduler={k[1]} workers={k[2]}", "",
                                  ctx=dict(site="differential", mode="unstable", op=name))
                elif d != base_d.get(name):
                    chk.violation(f"differs|{name}", f"operation {name} under NUMBA_NUM_THREADS={k[0]} scheduler={k[1]} workers={k[2]} differs from the run under "
                                  f"NUMBA_NUM_THREADS={keys[0][0]} scheduler={keys[0][1]}", "", ctx=dict(site="differential", mode="differs", op=name))
                else:
                    chk.nontrivial_case(hash((k, name)))
        chk.notes["differential_cells"] = {f"numba={k[0]},{k[1]},workers={k[2]}": len(v) for k, v in digests.items()}
    chk.sample({"cache_events_sample": events[:6]})
    if runs:
        chk.sample({"threaded_run": repr(runs[0][0].cfg), "tasks_interleaved": [e["task"] for e in runs[0][0].events if e["origin"] in packfs.PROTOCOL_ORIGINS][:40]})
    if design_bad and not chk.violations:
        raise MachineryError("PackFS interleavings violate an invariant but all threaded runs are fine: model error\n" + design_bad[0].out[design_bad[0].out.index("Error:"):][:1500])
    return chk.finish()
