"""Shared machinery of C10 / C18 / C19: run pack_partitions_to_parquet on the recording / fault-injecting filesystem, map the
recorded events to the vocabulary of PackFS.tla, and let TLC (Trace_PackFS) accept or reject each recorded execution."""
from __future__ import annotations

import concurrent.futures as cf
import json
import os
import re
import shutil
import tempfile

import numpy as np

from . import geom
from .c07 import digits
from .fsrec import RecordingFS, tree
from .tlc import MachineryError, run_tlc, scratch

PROTOCOL_ORIGINS = {"rm_retry", "mkdirs_retry", "write_partition", "read_parquet_retry", "write_concatted_part", "move_retry",
                    "write_metadata_file", "write_commonmetadata_file"}
RETRY = dict(stop_max_attempt_number=3, wait_fixed=1)
NOPATH = dict(loc="none", k=-1, i=-1, gen=0)


def make_frame(n, seed=0, kind="point", dup=0):
    import spatialpandas as sp
    rng = np.random.RandomState(seed)
    xs = rng.randint(0, 64, size=n)
    ys = rng.randint(0, 64, size=n)
    if dup:                      # only `dup` distinct sites (+ the two corners): many requested output partitions come out empty
        xs = np.array([xs[i % dup] for i in range(n)])
        ys = np.array([ys[i % dup] for i in range(n)])
    els = [geom.El([[[[int(x), int(y)]]]]) for x, y in zip(xs, ys)]
    els[0] = geom.El([[[[0, 0]]]])
    els[-1] = geom.El([[[[64, 64]]]])
    if n > 5:
        els[2] = geom.NULL
        els[4] = els[3]
    other = geom.make_array("line", [geom.El([[[[int(y), 1], [int(y) + 1, 2]]]]) for y in ys])
    df = sp.GeoDataFrame({"id": np.arange(1, n + 1), "other": other, "geometry": geom.make_array("point", els)}).set_geometry("geometry")
    return df, els          # the active geometry is the SECOND geometry column


class Cfg:
    def __init__(self, n=8, nin=2, nout=3, mode="inside", overwrite=False, prev=0, p=6, compression="snappy", seed=0, dup=0):
        self.n, self.nin, self.nout, self.mode, self.overwrite, self.prev, self.p, self.compression, self.seed, self.dup = \
            n, nin, nout, mode, overwrite, prev, p, compression, seed, dup

    def key(self):
        return f"n{self.n}_in{self.nin}_out{self.nout}_{self.mode}_ow{int(self.overwrite)}_prev{self.prev}" + (f"_dup{self.dup}" if self.dup else "")

    def __repr__(self):
        return f"Cfg({self.key()}, p={self.p}, compression={self.compression})"


class Run:
    pass


def run_pack(cfg: Cfg, plan=None, scheduler="synchronous", workers=None, delays=None, root=None, keep=False, prior_root=None, seed=0):
    """one execution of pack_partitions_to_parquet; returns a Run with status, events, final tree, read-back frames"""
    import dask
    import dask.dataframe as dd
    from spatialpandas.io import read_parquet_dask
    r = Run()
    r.cfg = cfg
    r.root = root or tempfile.mkdtemp(prefix="pack-", dir=os.environ.get("TMPDIR") or "/var/tmp")
    r.ds = os.path.join(r.root, "ds.parq")
    os.makedirs(os.path.join(r.root, "scratch"), exist_ok=True)
    df, els = make_frame(cfg.n, cfg.seed, dup=cfg.dup)
    r.df, r.els = df, els
    kw = dict(scheduler=scheduler)
    if workers:
        kw["num_workers"] = workers
    if cfg.prev and not os.path.exists(r.ds):
        with dask.config.set(scheduler="synchronous"):
            pdf, _ = make_frame(3 * cfg.prev, cfg.seed + 17)
            dd.from_pandas(pdf, npartitions=2).pack_partitions_to_parquet(r.ds, npartitions=cfg.prev, p=4, _retry_args=RETRY)
            r.prev_parts = len([f for f in os.listdir(r.ds) if f.startswith("part.")])
    fs = RecordingFS(r.root, plan=plan, delays=delays, seed=seed)
    r.fs = fs
    tf = None
    if cfg.mode == "outside_uuid":
        tf = os.path.join(r.root, "scratch", "t-{uuid}-{partition}")
    elif cfg.mode == "outside_fixed":
        tf = os.path.join(r.root, "scratch", "t-fixed-{partition}")
    with dask.config.set(**kw):
        ddf = dd.from_pandas(df, npartitions=cfg.nin)
        try:
            out = ddf.pack_partitions_to_parquet(r.ds, filesystem=fs, npartitions=cfg.nout, p=cfg.p, compression=cfg.compression,
                                                 tempdir_format=tf, _retry_args=RETRY, overwrite=cfg.overwrite)
            r.status = "returned"
            r.returned = [out.get_partition(k).compute() for k in range(out.npartitions)]
        except Exception as ex:  # noqa: BLE001
            r.status = "raised"
            r.error = f"{type(ex).__name__}: {ex}"
            r.returned = None
    r.events = list(fs.events)
    r.tree = tree(r.root)
    r.readback = None
    if r.status == "returned":
        try:
            with dask.config.set(scheduler="synchronous"):
                ind = read_parquet_dask(r.ds)
                r.readback = [ind.get_partition(k).compute() for k in range(ind.npartitions)]
                r.bounds = {c: ind._partition_bounds[c].values.tolist() for c in ("geometry", "other")} if isinstance(ind._partition_bounds, dict) and ind._partition_bounds else None
        except Exception as ex:  # noqa: BLE001
            r.readback_error = f"{type(ex).__name__}: {ex}"
    if not keep:
        shutil.rmtree(r.root, ignore_errors=True)
    return r


# ---------------------------------------------------------------------------------------------------------------------
def model_path(rel, cfg, gens, genbase=0):
    """relative path -> PackFS path record (or None when the path is not one the model knows)"""
    if isinstance(rel, list):
        return [model_path(x, cfg, gens, genbase) for x in rel]
    rel = rel.rstrip("/")
    if rel == "ds.parq":
        return dict(loc="ds", k=-1, i=-1, gen=0)
    if rel == "ds.parq/_metadata":
        return dict(loc="meta", k=-1, i=-1, gen=0)
    if rel == "ds.parq/_common_metadata":
        return dict(loc="cmeta", k=-1, i=-1, gen=0)
    m = re.fullmatch(r"ds\.parq/part\.(\d+)\.parquet", rel)
    if m:
        return dict(loc="out", k=int(m.group(1)), i=-1, gen=0)
    m = re.fullmatch(r"ds\.parq/part\.(\d+)\.parquet/part(\d+)\.parquet", rel)
    if m:
        return dict(loc="out", k=int(m.group(1)), i=int(m.group(2)) + 1, gen=0)
    m = re.fullmatch(r"ds\.parq/part\.(\d+)\.parquet/part\.(\d+)\.parquet", rel)
    if m:
        return dict(loc="out", k=int(m.group(1)), i=100 + int(m.group(2)), gen=0)
    m = re.fullmatch(r"scratch/t-([0-9a-f-]+|fixed)-(\d+)(?:/part(\d+)\.parquet)?", rel)
    if m:
        tag = m.group(1)
        if tag == "fixed":
            g = 0
        else:
            if tag not in gens:
                gens[tag] = genbase            # the first call of a trace is generation 0, the repeat generation 1
            g = gens[tag]
        return dict(loc="tmp", k=int(m.group(2)), i=(int(m.group(3)) + 1) if m.group(3) is not None else -1, gen=g)
    return None


def task_of(t):
    if t == "main":
        return ["main", 0]
    a, b = t.split(":")
    return ["proc", int(b) + 1] if a == "proc" else ["cat", int(b)]


def to_trace(run: Run, assign, gens=None, genbase=0):
    """header + events in the vocabulary of Trace_PackFS; returns (lines, n_injected, unknown_paths)"""
    cfg = run.cfg
    gens = {} if gens is None else gens
    evs = []
    unknown = []
    injected = 0
    for e in run.events:
        if e["op"] == "invalidate_cache":
            continue
        protocol = e["origin"] in PROTOCOL_ORIGINS
        p = model_path(e["path"], cfg, gens, genbase)
        if isinstance(p, list):
            p1, p2 = p
        else:
            p1, p2 = p, NOPATH
        op = "move" if e["op"] in ("mv", "move") else e["op"]
        if not protocol and e.get("injected"):
            # a fault injected into a reader's own call (pyarrow / read_parquet): only the task matters
            injected += 1
            evs.append(dict(task=task_of(e["task"]), op="read", p1=NOPATH, p2=NOPATH, kind="foreign", injected=1, ans=-1, ls=[]))
            continue
        if p1 is None or p2 is None:
            if protocol:
                unknown.append(e)
            continue
        if op not in ("exists", "isfile", "isdir", "ls", "rm", "makedirs", "move", "open:wb", "open:rb"):
            if protocol:
                unknown.append(e)
            continue
        if not protocol and op not in ("exists", "isfile", "isdir") and not e.get("injected"):
            continue                       # foreign reads carry no checkable answer
        res = e.get("res")
        ans = -1
        ls = []
        if isinstance(res, bool):
            ans = int(res)
        if op == "ls" and isinstance(res, list):
            ls = [q for q in (model_path(x, cfg, gens, genbase) for x in res) if q is not None]
            if len(ls) != len(res) and not e.get("injected"):
                unknown.append(e)
        inj = 1 if e.get("injected") else 0
        injected += inj
        evs.append(dict(task=task_of(e["task"]), op=op, p1=p1, p2=p2, kind="protocol" if protocol else "foreign", injected=inj, ans=ans, ls=ls))
    tr = []
    for rel, ty in sorted(run.tree.items()):
        q = model_path(rel, cfg, gens, genbase)
        if q is not None:
            tr.append(dict(p=q, ty=ty))
        elif rel not in ("scratch",):
            unknown.append(dict(tree=rel))
    header = dict(assign=assign, final_status=run.status, tree=tr)
    return [header] + evs, injected, unknown


def reference_assign(run: Run):
    """which output partitions receive rows from which input partition: read off the fault-free run's sub-part writes"""
    a = {i: set() for i in range(1, run.cfg.nin + 1)}
    gens = {}
    for e in run.events:
        if e["origin"] == "write_partition" and e["op"] == "open:wb":
            q = model_path(e["path"], run.cfg, gens)
            a[q["i"]].add(q["k"])
    return [sorted(a[i]) for i in range(1, run.cfg.nin + 1)]


def validate_runs(items, invariants=("CleanFinal", "RerunRestores", "NoSharedWrites"), parallel=16):
    """items: [(run, assign, allow_rerun, extra_runs)] -> [(verdict, detail, tlc_result)]
    verdict: "accepted" | "rejected" | "violates:<Invariant>" | "unknown-call" """
    wd = scratch("packfs-traces")

    def one(idx):
        run, assign, rerun_run = items[idx]
        gens = {}
        lines, injected, unknown = to_trace(run, assign, gens)
        if rerun_run is not None:
            # the repeat with overwrite = True continues the same trace: PackFS!Rerun is a silent step of the trace spec
            l2, _, u2 = to_trace(rerun_run, assign, gens, genbase=1)
            lines = [dict(lines[0], final_status=rerun_run.status, tree=l2[0]["tree"])] + lines[1:] + l2[1:]
            unknown += u2
        if unknown:
            return ("unknown-call", unknown[:3], None)
        path = os.path.join(wd, f"t{idx}.ndjson")
        with open(path, "w") as f:
            for ln in lines:
                f.write(json.dumps(ln, separators=(",", ":")) + "\n")
        cfg = run.cfg
        consts = dict(NIn=cfg.nin, NOut=cfg.nout, Mode=cfg.mode, Overwrite=bool(cfg.overwrite), PrevParts=getattr(run, "prev_parts", 0) if cfg.prev else 0,
                      MaxFaults=injected, RetryMax=RETRY["stop_max_attempt_number"], FixEmptyPlaceholder=True, AllowRerun=rerun_run is not None)
        res = run_tlc("Trace_PackFS", cfg=dict(spec="TSpec", constants=consts, invariants=list(invariants) + ["NotAccepted"], constraints=["Progress"],
                                               postcondition="PrintProgress"), workers=1, env={"TRACE_FILE": path}, timeout=3000, name=f"tr{idx}", dfs=True)
        m = re.findall(r'"PROGRESS", (\d+)', res.out)
        progress = int(m[-1]) if m else -1
        if "NotAccepted" in res.violated:
            return ("accepted", len(lines) - 1, res)
        if res.violated:
            return ("violates:" + res.violated[0], res.out[res.out.index("Error:"):][:600], res)
        nxt = lines[progress] if 0 < progress < len(lines) else None
        return ("rejected", dict(events=len(lines) - 1, consumed=progress - 1, next_event=nxt), res)

    with cf.ThreadPoolExecutor(max_workers=parallel) as ex:
        return list(ex.map(one, range(len(items))))


def pack_record(run: Run, parts):
    """Trace_Pack record for a list of partition frames read back from the dataset"""
    cfg = run.cfg
    pos = {rid: q + 1 for q, rid in enumerate(run.df["id"])}
    return dict(kind="point", elems=[dict(null=e["null"], g=e["g"]) for e in run.els], p=cfg.p, nparts=len(parts),
                parts=[[[pos[int(i)], digits(int(k), cfg.p, 2)] for k, i in zip(part.index, part["id"])] for part in parts])
