"""C06 - a Dask geo frame answers exactly like the pandas frame it represents.

design       : MC_DaskFrame - partitions, cached partition bounds, provenance actions (touch the caches, row filter, column
               selection), then one query; TLC checks DaskExact (the partition-level mechanism = the pandas meaning on the
               concatenated rows; cx_partitions is a superset) and CacheFresh (a cache always describes its own frame).
spec -> code : every behaviour is replayed on a real DaskGeoDataFrame with exactly the modelled partitions (empty ones included),
               optionally sent through a parquet round trip first; results are compared with the model's `want` and - for every
               row-wise operation of the property (bounds, area, length, intersects_bounds, total_bounds) - with the same call on
               the concatenated pandas frame."""
from __future__ import annotations

import math
import os
import shutil
import tempfile

import numpy as np
import pandas as pd

from . import c04, geom
from .core import Check
from .tlaval import iter_dump
from .tlc import MachineryError, run_jobs, shard_jobs

CONFIGS = [("point", "CatPoint", "polygon", "CatPolygon"), ("line", "CatLine", "polygon", "CatPolygon"),
           ("polygon", "CatPolygon", "polygon", "CatPolygon"), ("multipolygon", "CatMultiPolygon", "line", "CatLine"),
           ("point", "CatPoint", "multiline", "CatMultiLine")]


def build_dask(kind, cat, parts0, via_parquet, tmp, counter):
    import dask
    import dask.dataframe as dd
    import spatialpandas as sp
    from spatialpandas.io import read_parquet_dask
    dfs = []
    rid = 0
    for p in parts0:
        els = [cat[i - 1] for i in p]
        ids = list(range(rid + 1, rid + 1 + len(p)))
        rid += len(p)
        dfs.append(sp.GeoDataFrame({"id": np.array(ids, dtype="int64"), "geometry": geom.make_array(kind, els)},
                                   index=pd.RangeIndex(ids[0] - 1, ids[0] - 1 + len(ids)) if ids else pd.RangeIndex(0)))
    meta = dfs[0].iloc[:0]
    ddf = dd.from_delayed([dask.delayed(d) for d in dfs], meta=meta, verify_meta=False)
    if via_parquet and all(len(d) for d in dfs):
        path = os.path.join(tmp, f"d{counter}.parq")
        ddf.to_parquet(path)
        ddf = read_parquet_dask(path)
    return ddf, pd.concat(dfs) if len(dfs) > 1 else dfs[0]


def axis(spec):
    return c04.axis_arg(spec)


def pruned_then_other_column(chk, seed):
    """provenance: a packed dataset with two geometry columns, re-read with bounds= (partitions pruned), then queried through the
    OTHER geometry column (set_geometry / column selection): answers equal pandas on the computed frame"""
    import dask
    import dask.dataframe as dd
    import numpy as np
    from spatialpandas.io import read_parquet_dask
    from . import packfs
    tmp2 = tempfile.mkdtemp(prefix="c06p-", dir=os.environ.get("TMPDIR") or "/var/tmp")
    try:
        with dask.config.set(scheduler="synchronous"):
            df, _ = packfs.make_frame(30, seed + 3)
            path = os.path.join(tmp2, "two.parq")
            dd.from_pandas(df, npartitions=3).pack_partitions_to_parquet(path, npartitions=5, p=8, _retry_args=packfs.RETRY)
            full = read_parquet_dask(path).compute()
            tbp = full["geometry"].array.total_bounds
            box = (float(tbp[0]), float(tbp[1]), float(tbp[0] + (tbp[2] - tbp[0]) / 3), float(tbp[3]))
            for g in (None, "geometry", "other"):
                fr = read_parquet_dask(path, geometry=g, bounds=box)
                pdf = fr.compute()
                chk.count()
                for oc in ("other", "geometry"):
                    for how, derive in (("set_geometry", lambda f_, c_: f_.set_geometry(c_)), ("column", lambda f_, c_: f_[c_])):
                        d2 = derive(fr, oc)
                        p2 = derive(pdf, oc)
                        ser = d2.geometry if hasattr(d2, "geometry") and not hasattr(d2, "total_bounds") else d2
                        pser = p2.geometry if hasattr(p2, "geometry") and not hasattr(p2, "array") else p2
                        try:
                            tbd = [float(v) for v in ser.total_bounds]
                            tbw = [float(v) for v in pser.array.total_bounds]
                            q = (tbw[0], tbw[2], tbw[1], tbw[3]) if not any(np.isnan(tbw)) else (0.0, 1.0, 0.0, 1.0)
                            gotq = sorted(int(i) for i in d2.cx[q[0]:(q[0] + q[1]) / 2, q[2]:q[3]].compute().index) if how != "column" else None
                            wantq = sorted(int(i) for i in p2.cx[q[0]:(q[0] + q[1]) / 2, q[2]:q[3]].index) if how != "column" else None
                        except Exception as ex:  # noqa: BLE001
                            chk.violation(f"pruned-other|raises|{how}", f"read_parquet_dask(geometry={g!r}, bounds=box) ; {how}({oc!r}) ; total_bounds / cx raises {type(ex).__name__}: {ex}",
                                          "", ctx=dict(site="dask.provenance", mode="pruned-other-raises"))
                            return
                        if not all((np.isnan(a) and np.isnan(b)) or a == b for a, b in zip(tbd, tbw)) or gotq != wantq:
                            chk.violation(f"pruned-other|{how}", f"read_parquet_dask(geometry={g!r}, bounds=box) ; {how}({oc!r}): total_bounds {tbd} / cx rows {gotq}, pandas on the computed "
                                          f"frame says {tbw} / {wantq}", "", ctx=dict(site="dask.provenance", mode="pruned-other"))
                            return
    finally:
        shutil.rmtree(tmp2, ignore_errors=True)


def run(tier: str, seed: int) -> int:
    import dask
    import spatialpandas as sp
    from spatialpandas.dask import DaskGeoDataFrame
    chk = Check("C06", tier, seed)
    chk.notes["rule"] = ("behaviours of MC_DaskFrame: <= N catalogue rows (missing / empty included) in 1..3 contiguous partitions (empty and "
                         "all-inert partitions included) x provenance (touch caches, row filters, column selection; parquet round trip in the "
                         "replay) x query (cx, cx_partitions, total_bounds, sjoin inner / left) - each replayed on a real DaskGeoDataFrame and "
                         "compared with the model and with pandas on the concatenated frame; non-trivial = behaviour with >= 2 partitions "
                         "whose query result is neither empty nor everything")
    chk.assumptions = ["Dask's own machinery (from_delayed, map_partitions, compute) is trusted; its use by spatialpandas is what is checked",
                       "synchronous scheduler here; schedulers are C18's subject"]
    quick = tier == "quick"
    jobs, plan = [], []
    # quick: point x polygon, line x polygon, point x multiline (sjoin needs points on the left; points ON right lines are decided
    # hits, so right shapes that merely touch a one-row partition's degenerate extent matter)
    for kind, cat, rkind, rcat in ([CONFIGS[0], CONFIGS[1], CONFIGS[4]] if quick else CONFIGS):
        js = shard_jobs("MC_DaskFrame", dict(constants=dict(Kind=kind, Elems="<- " + cat, RKind=rkind, RElems="<- " + rcat, MaxOps=3,
                                                           N=2 if quick else 3, KeyStride=21 if quick else 5),
                                            invariants=["DaskExact", "CacheFresh"]), 64 if quick else 16, which=range(0, 4) if quick else range(seed % 2, 16, 2),
                        dump=True, continue_=True, timeout=3000 if quick else 12000)
        plan.append((kind, cat, rkind, rcat, len(js)))
        jobs += js
    results = run_jobs(jobs)
    chk.add_tlc(results)
    bad = [r for r in results if r.violated]
    cats = c04.catalogues()
    tmp = tempfile.mkdtemp(prefix="c06-", dir=os.environ.get("TMPDIR") or "/var/tmp")
    before = len(chk.violations)
    counter = 0
    off = 0
    try:
        with dask.config.set(scheduler="synchronous"):
            for kind, catn, rkind, rcatn, k in plan:
                rs = results[off:off + k]
                off += k
                cat, rcat = cats[catn], cats[rcatn]
                right = sp.GeoDataFrame({"rid": list(range(1, len(rcat) + 1)), "geometry": geom.make_array(rkind, rcat)})
                allst = [st for r in rs for st in iter_dump(r.dump) if st["out"]["op"] != ""]
                cap = 600 if quick else 10 ** 9
                # quick tier: an even sample that keeps every behaviour with a provenance step before the query
                if len(allst) > cap:
                    prov = [st for st in allst if len(st["hist"]) > 1]
                    rest = [st for st in allst if len(st["hist"]) == 1]
                    sp_ = max(1, len(prov) // (cap * 2 // 3))
                    sr_ = max(1, len(rest) // (cap // 3))
                    allst = prov[::sp_] + rest[::sr_]
                chk.notes.setdefault("replayed_behaviours", 0)
                chk.notes["replayed_behaviours"] += len(allst)
                for r in [None]:
                    for st in allst:
                        counter += 1
                        h = hash((repr(st["parts0"]), repr(st["hist"])))
                        ddf, pdf0 = build_dask(kind, cat, st["parts0"], h % 4 == 0, tmp, counter)
                        desc = [f"DaskGeoDataFrame[{kind}] partitions {[[geom.to_py(kind, cat[i - 1]) for i in p] for p in st['parts0']]}"
                                + (" (via to_parquet / read_parquet_dask)" if h % 4 == 0 else "")]
                        try:
                            final = None
                            for hs in st["hist"]:
                                if hs["op"] == "touch":
                                    ddf.partition_sindex  # noqa: B018
                                    desc.append("partition_sindex")
                                elif hs["op"] == "filter":
                                    keep = sorted(hs["a"])
                                    ddf = ddf[ddf["id"].isin(keep)]
                                    desc.append(f"ddf[ddf.id.isin({keep})]")
                                elif hs["op"] == "colselect":
                                    ddf = ddf[["id", "geometry"]] if h % 2 else ddf.persist()
                                    desc.append("ddf[['id', 'geometry']]" if h % 2 else "persist()")
                                else:
                                    final = hs
                            if h % 5 == 0:
                                ddf = ddf.build_sindex(page_size=1 + h % 3)          # per-partition indexes: results must not change
                                desc.append("build_sindex()")
                            if not isinstance(ddf, DaskGeoDataFrame):
                                chk.violation(f"type|{kind}", " ; ".join(desc) + f"\n  is a {type(ddf).__name__}", "# " + " ; ".join(desc), ctx=dict(site="dask", mode="type"))
                                continue
                            pdf = ddf.compute()
                            cur_ids = [i for p in st["ids"] for i in p]
                            if list(pdf["id"]) != cur_ids:
                                chk.violation(f"rows|{kind}", " ; ".join(desc) + f"\n  holds rows {list(pdf['id'])}, model {cur_ids}", "# " + " ; ".join(desc), ctx=dict(site="dask", mode="rows"))
                                continue
                            out = st["out"]
                            op = final["op"]
                            chk.count()
                            if op in ("cx", "cx_partitions"):
                                key = final["key"]
                                desc.append(f"{op}[{axis(key[0])!r}, {axis(key[1])!r}]")
                                res = getattr(ddf, op)[axis(key[0]), axis(key[1])].compute()
                                got = list(res["id"])
                                if op == "cx" and h % 4 == 1:
                                    # the same query through the geometry SERIES of the frame
                                    sres = ddf.geometry.cx[axis(key[0]), axis(key[1])].compute()
                                    if list(sres.index) != list(res.index):
                                        chk.violation(f"seriescx|{kind}", " ; ".join(desc) + f"\n  DaskGeoSeries.cx selects index {list(sres.index)}, the frame's cx {list(res.index)}",
                                                      "# " + " ; ".join(desc), ctx=dict(site="dask.series.cx", kind=kind))
                                if out["unspec"]:
                                    continue
                                want = [cur_ids[q - 1] for q in out["want"]]
                                pandas_res = list(pdf.cx[axis(key[0]), axis(key[1])]["id"]) if len(pdf) else []
                                if op == "cx":
                                    okk = got == want and got == pandas_res and isinstance(res, sp.GeoDataFrame)
                                else:
                                    okk = set(want) <= set(got)
                                    # whole partitions: every returned row's partition must be returned completely
                                    for pids in st["ids"]:
                                        inter = set(pids) & set(got)
                                        if inter and inter != set(pids):
                                            okk = False
                                if not okk:
                                    chk.violation(f"{op}|{kind}|{key!r}", " ; ".join(desc) + f"\n  returns rows {got}; model (pandas meaning on the concatenated rows) {want}; "
                                                  f"pandas cx on compute() {pandas_res}", "# " + " ; ".join(desc), ctx=dict(site=f"dask.{op}", kind=kind))
                                if want and len(want) < len(cur_ids) and len(st["parts0"]) > 1:
                                    chk.nontrivial_n += 1
                            elif op == "total_bounds":
                                desc.append("geometry.total_bounds")
                                got = [float(v) for v in ddf.geometry.total_bounds]
                                want = [math.nan if v == geom.NAN else float(v) for v in out["want"]]
                                pw = [float(v) for v in pdf.geometry.array.total_bounds] if len(pdf) else [math.nan] * 4
                                if not all((math.isnan(a) and math.isnan(b)) or a == b for a, b in zip(got, want)) or \
                                        not all((math.isnan(a) and math.isnan(b)) or a == b for a, b in zip(got, pw)):
                                    chk.violation(f"total_bounds|{kind}", " ; ".join(desc) + f"\n  = {got}; model {want}; pandas {pw}", "# " + " ; ".join(desc),
                                                  ctx=dict(site="dask.total_bounds", kind=kind))
                                # the row-wise operations of the property, against pandas on the concatenated frame
                                for name, fn in (("bounds", lambda g: g.bounds), ("area", lambda g: g.area), ("length", lambda g: g.length),
                                                 ("intersects_bounds", lambda g: g.intersects_bounds((1.0, 1.0, 3.0, 3.0)))):
                                    a = fn(ddf.geometry).compute()
                                    b = fn(pdf.geometry)
                                    if not np.array_equal(np.asarray(a, dtype="float64"), np.asarray(b, dtype="float64"), equal_nan=True) or list(a.index) != list(b.index):
                                        chk.violation(f"{name}|{kind}", " ; ".join(desc) + f"\n  Dask geometry.{name} = {np.asarray(a).tolist()}, pandas {np.asarray(b).tolist()}",
                                                      "# " + " ; ".join(desc), ctx=dict(site=f"dask.{name}", kind=kind))
                            elif op == "sjoin":
                                how = final["a"]
                                desc.append(f"sjoin(ddf, right[{rkind}], how={how!r})")
                                res = sp.sjoin(ddf, right, how=how).compute()
                                if out["unspec"]:
                                    continue
                                def nn(v):
                                    return 0 if (v is None or (isinstance(v, float) and math.isnan(v)) or v is pd.NA) else int(v)
                                pos = {i: q + 1 for q, i in enumerate(cur_ids)}
                                got = sorted((pos[nn(l)], nn(rr)) for l, rr in zip(res["id"], res["rid"]))
                                want = sorted(tuple(p) for p in out["want"])
                                if got != want:
                                    chk.violation(f"sjoin|{kind}|{how}", " ; ".join(desc) + f"\n  pairs (left position, right position) {got}; model {want}", "# " + " ; ".join(desc),
                                                  ctx=dict(site="dask.sjoin", kind=kind, how=how))
                                if want and len(st["parts0"]) > 1:
                                    chk.nontrivial_n += 1
                            if counter == 50:
                                chk.sample({"kind": kind, "partitions": st["parts0"], "history": [dict(op=x["op"], a=x["a"], key=x["key"]) for x in st["hist"]],
                                            "want": out["want"]})
                        except Exception as ex:  # noqa: BLE001
                            import traceback
                            chk.violation(f"raises|{kind}|{type(ex).__name__}|{str(ex)[:40]}", " ; ".join(desc) + f"\n  raises {type(ex).__name__}: {ex}\n" + traceback.format_exc()[-800:],
                                          "# " + " ; ".join(desc), ctx=dict(site="dask", mode="raises", kind=kind))
            # datasets with MORE THAN TEN partitions (partition numbers travel as strings through file names and the bounds
            # metadata - ParquetDS!LoadOrder): read back, queried, judged by Trace_GeoFrame and compared with pandas
            from . import c01
            from .tlc import validate_trace
            from spatialpandas.io import read_parquet_dask
            import dask.dataframe as dd
            recs = []
            for kind in ("point", "line", "polygon"):
                for nparts in ([13] if quick else [11, 13, 16]):
                    for writer in ("to_parquet", "pack"):
                        n = nparts * 2
                        elems = [c01.rand_element(chk.rng, kind, 20) for _ in range(n)]
                        elems = [e if not e["null"] else elems[(i + 1) % n] for i, e in enumerate(elems)] if writer == "pack" else elems
                        pdf = sp.GeoDataFrame({"id": np.arange(1, n + 1), "geometry": geom.make_array(kind, elems)})
                        path = os.path.join(tmp, f"many_{kind}_{nparts}_{writer}.parq")
                        try:
                            if writer == "to_parquet":
                                dd.from_pandas(pdf, npartitions=nparts).to_parquet(path)
                            else:
                                dd.from_pandas(pdf, npartitions=3).pack_partitions_to_parquet(path, npartitions=nparts, p=8)
                        except Exception:  # noqa: BLE001
                            continue
                        rd = read_parquet_dask(path)
                        whole = rd.compute()
                        order = {int(i): q for q, i in enumerate(whole["id"])}
                        els_loaded = [elems[int(i) - 1] for i in whole["id"]]
                        for _ in range(4):
                            a0, b0 = sorted(chk.rng.sample(range(-21, 22), 2))
                            c0, d0 = sorted(chk.rng.sample(range(-21, 22), 2))
                            got = rd.cx[a0:b0, c0:d0].compute()
                            chk.count()
                            pos = [order[int(i)] + 1 for i in got["id"]]
                            recs.append(dict(kind=kind, elems=[dict(null=e["null"], g=e["g"]) for e in els_loaded],
                                             key=[[a0, b0, 0], [c0, d0, 0]], res=pos, container=f"read_parquet_dask({writer}, {rd.npartitions} partitions)"))
                            pw = list(whole.cx[a0:b0, c0:d0]["id"])
                            if list(got["id"]) != pw:
                                chk.violation(f"many|{kind}|{writer}", f"cx on a {rd.npartitions}-partition dataset written by {writer} and read back returns rows {list(got['id'])}, "
                                              f"pandas cx on compute() {pw}", "", ctx=dict(site="dask.cx", kind=kind, mode="many-partitions"))
            verdicts, tres = validate_trace("Trace_GeoFrame", recs, timeout=3000)
            chk.add_tlc(tres)
            chk.traces += len(recs)
            for rec, st in verdicts:
                if st["verdict"] == "mismatch":
                    chk.violation(f"many-trace|{rec['kind']}", f"cx on {rec['container']} returned positions {rec['res']} - rejected by Trace_GeoFrame", "",
                                  ctx=dict(site="dask.cx", kind=rec["kind"], mode="many-partitions"))
                elif st["verdict"] == "ok" and rec["res"]:
                    chk.nontrivial_case(hash(repr(rec)))
    finally:
        shutil.rmtree(tmp, ignore_errors=True)
    # cross-feature histories (World.tla, TLC -simulate) - provenances pack_partitions / parquet / compute / filter chains
    pruned_then_other_column(chk, seed)
    from . import world
    world.stage(chk, quick, seed)            # spec -> code: TLC-simulated behaviours of World replayed on real objects
    world.drive_stage(chk, quick, seed)      # code -> spec: random driver histories judged by Trace_World
    if bad and len(chk.violations) == before:
        raise MachineryError("MC_DaskFrame: invariant violated but every behaviour replays correctly: DaskFrame.tla mis-describes the mechanism\n"
                             + bad[0].out[bad[0].out.index("Error:"):][:1500])
    chk.exhaustive = False      # shards of the initial frames are sampled in both tiers (each shard exhaustively); World is explored by simulation
    return chk.finish()
