"""C01 - box-intersection test exact for every geometry type.

spec -> code : MC_BoxHit enumerates every element of the small-scope families with the oracle's answer
               for every box of the doubled grid (and TLC checks the kernel transcription against the
               oracle on the same states); the states are replayed on the real arrays in every form
               (scalar / array / inds / GeoSeries), corner order, exact affine image and subtype.
code -> spec : random larger elements and boxes are run through the real code, every call is logged
               and Trace_BoxHit lets TLC recompute the oracle for each record."""
from __future__ import annotations

import numpy as np

from . import geom
from .core import Check
from .tlaval import iter_dump, parse_value
from .tlc import MachineryError, run_jobs, shard_jobs, validate_trace

FAMILIES_QUICK = [("point", 3, 1, None), ("multipoint", 3, 2, None), ("line", 3, 32, range(0, 10)),
                  ("multiline", 3, 128, range(0, 6)), ("polygon", 3, 32, range(0, 10)), ("holed", 5, 128, range(0, 8)), ("holedrot", 5, 8, None),
                  ("multipolygon", 3, 128, range(0, 6)), ("holedmulti", 6, 8, range(0, 2))]
FAMILIES_THOROUGH = [("point", 4, 2, None), ("multipoint", 3, 4, None), ("line", 3, 16, None),
                     ("line4", 3, 64, None), ("multiline", 3, 64, None), ("polygon", 3, 16, None),
                     ("holed", 5, 64, None), ("holedrot", 5, 8, None), ("multipolygon", 3, 64, None), ("holedmulti", 6, 8, None)]


def generate(chk: Check, families, module="MC_BoxHit", seqname="BOXSEQ"):
    jobs = []
    for fam, G, ns, which in families:
        jobs += shard_jobs(module, dict(constants=dict(G=G, Fam=fam), invariants=["DesignAgrees"]),
                           ns, which=which, dump=True, continue_=True, timeout=3000)
    results = run_jobs(jobs)
    chk.add_tlc(results)
    out = {}
    i = 0
    for fam, G, ns, which in families:
        n = len(list(which)) if which is not None else ns
        rs = results[i:i + n]
        i += n
        boxseq = None
        for chunk in rs[0].printed():
            if chunk.startswith('<<"%s"' % seqname) or chunk.startswith('<< "%s"' % seqname):
                boxseq = parse_value(chunk)[1]
        if boxseq is None:
            raise MachineryError(f"{module} did not print {seqname}")
        cases = []
        design_bad = 0
        for r in rs:
            design_bad += len(r.violated)
            for st in iter_dump(r.dump):
                cases.append((st["kind"], st["elem"], st["expect"]))
        out[fam] = dict(boxes=boxseq, cases=cases, design_bad=design_bad, G=G)
    return out


def elem_bbox(e):
    xs = [v[0] for p in e["g"] for r in p for v in r if v[0] != geom.NAN]
    ys = [v[1] for p in e["g"] for r in p for v in r if v[1] != geom.NAN]
    if not xs or not ys:
        return None
    return (min(xs), min(ys), max(xs), max(ys))


# float32 coordinates just above 2^23 (all integers are representable) with boxes of the doubled grid: their half-integer corners are NOT
# representable in float32, so a comparison that narrows the box corner to the coordinate type moves it across an element
F32EDGE = geom.Affine(0.5, 2.0 ** 23 - 2, 0.5, 2.0 ** 23 - 2, name="f32edge")      # model vertices are even, box corners any integers


# a very fine dyadic grid: every orientation determinant is exact but below 1e-9 in magnitude (an absolute tolerance would call it zero)
TINY = geom.Affine(2.0 ** -20, 0.0, 2.0 ** -20, 0.0, name="tiny")


def replay_family(chk: Check, fam, data, tier):
    boxes = data["boxes"]
    cases = data["cases"]
    if not cases:
        return
    by_kind = {}
    for k, e, x in cases:
        by_kind.setdefault(k, []).append((e, x))
    nb = len(boxes)
    for kind, lst in by_kind.items():
        # interleave missing elements so that positions and offsets are not trivial
        elems, expect = [], []
        for j, (e, x) in enumerate(lst):
            if j % 7 == 3:
                elems.append(geom.NULL)
                expect.append([0] * nb)
            elems.append(e)
            expect.append(x)
        E = np.array(expect, dtype=np.int8)                # [elem, box]
        n = len(elems)
        # non-trivial = box neither contains nor is disjoint from the element's bbox (elements of a family
        # are pairwise distinct, boxes too, so the pairs counted here are distinct by construction)
        bbs = [elem_bbox(e) if not e["null"] else None for e in elems]
        BB = np.array([bb for bb in bbs if bb is not None], dtype=np.int64).reshape(-1, 4)
        BX = np.array(boxes, dtype=np.int64)
        if len(BB):
            disjoint = ((BX[None, :, 2] < BB[:, None, 0]) | (BX[None, :, 0] > BB[:, None, 2]) |
                        (BX[None, :, 3] < BB[:, None, 1]) | (BX[None, :, 1] > BB[:, None, 3]))
            contains = ((BX[None, :, 0] <= BB[:, None, 0]) & (BX[None, :, 1] <= BB[:, None, 1]) &
                        (BX[None, :, 2] >= BB[:, None, 2]) & (BX[None, :, 3] >= BB[:, None, 3]))
            chk.nontrivial_n += int((~disjoint & ~contains).sum())
        chk.sample({"kind": kind, "element": elems[1 if n > 1 else 0], "box": boxes[len(boxes) // 2],
                    "expect": int(E[1 if n > 1 else 0, len(boxes) // 2])})
        inds = np.array([chk.rng.randrange(n) for _ in range(max(1, n // 2))] + list(range(n - 1, -1, -3)))
        special = any(geom.has_special(e) for e in elems)
        for aff in geom.IMAGES + [F32EDGE, TINY]:
            for subtype in (["float32"] if aff is F32EDGE else ["float64"] if aff is TINY else geom.SUBTYPES):
                if np.dtype(subtype).kind == "i" and (special or not aff.integral()):
                    els = [e for e in elems if not geom.has_special(e)] if aff.integral() else None
                    if els is None:
                        continue
                    keep = [i for i, e in enumerate(elems) if not geom.has_special(e)]
                else:
                    keep = list(range(n))
                els = [elems[i] for i in keep]
                if not geom.representable(kind, els, aff, subtype):
                    continue
                if subtype == "float32" and kind != "point" and aff.name == "big":
                    pass  # products of differences stay < 2^24 * 2^... : differences are <= 2^14, exact in float64 (kernel promotes)
                arr = geom.make_array(kind, els, aff, subtype)
                Ek = E[keep]
                indsk = np.array([keep.index(i) for i in inds if i in set(keep)]) if len(keep) != n else inds
                ser = None
                if aff is geom.IDENT and subtype == "float64":
                    import spatialpandas as sp
                    ser = sp.GeoSeries(arr, index=[f"r{i}" for i in range(len(arr))])
                scal = None
                ser_ix = None
                for b, B in enumerate(boxes):
                    cb = aff.box(B)
                    orders = geom.corner_orders(cb)
                    order_ids = range(4) if tier == "thorough" else [b % 4]
                    want = Ek[:, b]
                    dec = want != 2
                    for oi in order_ids:
                        box = orders[oi]
                        got = np.asarray(arr.intersects_bounds(box))
                        chk.count(len(keep))
                        bad = np.nonzero(dec & (got != (want == 1)))[0]
                        if len(bad):
                            report(chk, kind, els, aff, subtype, box, B, int(bad[0]), "array", bool(got[bad[0]]), int(want[bad[0]]))
                        if b % 97 == 3 and oi == order_ids[0] and len(arr) >= 3 and chk.budget("tiled", 60 if tier == "quick" else 600):
                            # the same elements tiled to a large array (size thresholds / chunked or parallel kernel builds)
                            from .measures import tiled
                            big, bpos = tiled(arr)
                            gb = np.asarray(big.intersects_bounds(box))
                            chk.count(len(big))
                            if gb.shape != (len(big),) or not np.array_equal(gb, got[bpos]):
                                j = int(np.nonzero(gb != got[bpos])[0][0]) if gb.shape == (len(big),) else 0
                                report(chk, kind, els, aff, subtype, box, B, int(bpos[j]), f"array tiled to {len(big)} elements (position {j})", bool(gb[j]) if gb.shape == (len(big),) else None,
                                       int(want[bpos[j]]))
                        if b % 7 == 0 and len(arr) >= 4:
                            # position lists that are a permutation (or have repeats) of a consecutive run, first and last in place
                            for pl in ([0, 2, 1, 3], [1, 3, 2, 2, 4] if len(arr) >= 5 else [0, 1, 1, 2], list(range(len(arr) - 1, -1, -1))):
                                pa_ = np.array(pl)
                                gp = np.asarray(arr.intersects_bounds(box, pa_))
                                if not np.array_equal(gp, got[pa_]):
                                    j = int(np.nonzero(gp != got[pa_])[0][0]) if gp.shape == got[pa_].shape else 0
                                    report(chk, kind, els, aff, subtype, box, B, int(pa_[j]), "inds", bool(gp[j]) if gp.shape == got[pa_].shape else None, int(want[pa_[j]]),
                                           extra=f"inds={pl} position {j}")
                                    break
                        got_i = np.asarray(arr.intersects_bounds(box, indsk))
                        if not np.array_equal(got_i, got[indsk]):
                            j = int(np.nonzero(got_i != got[indsk])[0][0])
                            report(chk, kind, els, aff, subtype, box, B, int(indsk[j]), "inds", bool(got_i[j]), int(want[indsk[j]]),
                                   extra=f"inds={indsk.tolist()} position {j}")
                    if ser is not None and b % 5 == 2:
                        # history: the series' spatial index has been built before; any corner order
                        if ser_ix is None:
                            ser_ix = sp.GeoSeries(arr.copy(), index=list(ser.index))
                            ser_ix.build_sindex(page_size=3)
                        got_x = ser_ix.intersects_bounds(orders[b % 4])
                        if list(got_x.index) != list(ser.index) or not np.array_equal(got_x.values, np.asarray(arr.intersects_bounds(orders[0]))):
                            report(chk, kind, els, aff, subtype, orders[b % 4], B, 0, "GeoSeries with a built spatial index", None, None)
                    if ser is not None:
                        got_s = ser.intersects_bounds(orders[0])
                        if list(got_s.index) != list(ser.index) or not np.array_equal(got_s.values, np.asarray(arr.intersects_bounds(orders[0]))):
                            report(chk, kind, els, aff, subtype, orders[0], B, 0, "GeoSeries", None, None)
                        if b % 151 == 7 and len(arr) >= 2 and chk.budget("dask", 40 if tier == "quick" else 400):
                            import dask
                            import dask.dataframe as dd
                            with dask.config.set(scheduler="synchronous"):
                                got_d = dd.from_pandas(ser, npartitions=min(3, len(arr)), sort=False).intersects_bounds(orders[0]).compute()
                            if list(got_d.index) != list(ser.index) or not np.array_equal(got_d.values, got_s.values):
                                report(chk, kind, els, aff, subtype, orders[0], B, 0, "DaskGeoSeries (3 partitions)", None, None)
                # scalar form: every element against a rotating sample of boxes (all boxes in thorough tier)
                if subtype in ("float64", "int32") or tier == "thorough" or aff is F32EDGE:
                    step = 1 if (tier == "thorough" or (aff is F32EDGE and kind == "point")) else 9
                    for i in range(len(els)):
                        s = arr[i]
                        if s is None:
                            continue
                        for b in range(i % step, nb, step):
                            cb = aff.box(boxes[b])
                            box = geom.corner_orders(cb)[(b + i) % 4]
                            got = bool(s.intersects_bounds(box))
                            chk.count()
                            want = int(Ek[i, b])
                            got_arr = bool(arr.intersects_bounds(box, np.array([i]))[0])
                            if (want != 2 and got != (want == 1)) or got != got_arr:
                                report(chk, kind, els, aff, subtype, box, boxes[b], i, "scalar", got, want,
                                       extra=f"array form gives {got_arr}")


def report(chk, kind, els, aff, subtype, box, model_box, i, form, got, want, extra=""):
    e = els[i]
    cls = geom.ARRAY_TYPES[kind].__name__
    py = geom.to_py(kind, e, aff)
    if np.dtype(subtype).kind == "i":
        py = geom._to_int(py)
    msg = (f"{cls}[{subtype}] intersects_bounds form={form} image={aff.name}: element {py!r} box {box!r} "
           f"(model element {e['g']!r}, model box {model_box!r}) -> got {got}, oracle {'TFU'[1 - want] if want in (0, 1) else 'U' if want == 2 else want} {extra}")
    replay = f"""import numpy as np
from spatialpandas.geometry import {cls}
arr = {cls}([None, {py!r}], dtype={subtype!r})
box = {tuple(box)!r}
print('array :', arr.intersects_bounds(box))
print('inds  :', arr.intersects_bounds(box, np.array([1, 1, 0])))
print('scalar:', arr[1].intersects_bounds(box))
print('oracle (SPGeom!BoxHit, 1=hit 0=no 2=unspecified):', {want!r})
"""
    chk.violation(f"{kind}|{form}|{subtype}|{aff.name}|{e['g']!r}|{model_box!r}", msg, replay,
                  ctx=dict(site=f"{cls}.intersects_bounds", form=form, kind=kind))


# ---------------------------------------------------------------------------------------------------
# code -> spec
def rand_vertex(rng, lim):
    return [rng.randrange(-lim, lim + 1), rng.randrange(-lim, lim + 1)]


def rand_ring_star(rng, lim, nv):
    """A simple closed ring: vertices on distinct directions around a centre, sorted by angle (exact)."""
    import math
    cx, cy = rng.randrange(-lim // 2, lim // 2 + 1), rng.randrange(-lim // 2, lim // 2 + 1)
    pts = {}
    for _ in range(nv * 3):
        dx, dy = rng.randrange(-lim // 2, lim // 2 + 1), rng.randrange(-lim // 2, lim // 2 + 1)
        if dx == 0 and dy == 0:
            continue
        g = math.gcd(abs(dx), abs(dy))
        pts.setdefault((dx // g, dy // g), (cx + dx, cy + dy))
        if len(pts) >= nv:
            break
    if len(pts) < 3:
        return None
    vs = sorted(pts.values(), key=lambda p: math.atan2(p[1] - cy, p[0] - cx))
    ring = [list(p) for p in vs]
    if rng.random() < 0.5:
        ring.reverse()
    return ring + [ring[0]]


def rand_element(rng, kind, lim):
    r = rng.random()
    if r < 0.04:
        return geom.NULL
    if kind == "point":
        return geom.El([[[rand_vertex(rng, lim)]]])
    if kind in ("multipoint", "line", "ring"):
        n = rng.choice([0, 1, 2, 2, 3, 4, 6, 9, 12])
        return geom.El([[[rand_vertex(rng, lim) for _ in range(n)]]])
    if kind == "multiline":
        return geom.El([[[rand_vertex(rng, lim) for _ in range(rng.choice([1, 2, 3, 5]))]
                         for _ in range(rng.choice([0, 1, 2, 3]))]])
    def poly():
        shell = rand_ring_star(rng, lim, rng.choice([3, 4, 5, 8, 11]))
        if shell is None:
            shell = [[0, 0], [lim, 0], [0, lim], [0, 0]]
        rings = [shell]
        if rng.random() < 0.5:
            # a small hole around the star's centre (TLC decides whether the polygon is valid)
            cx = sum(v[0] for v in shell[:-1]) // (len(shell) - 1)
            cy = sum(v[1] for v in shell[:-1]) // (len(shell) - 1)
            sd = rng.choice([1, 3, 4])
            h = [[cx, cy], [cx + sd, cy], [cx + sd, cy + sd], [cx, cy + sd], [cx, cy]]
            k = rng.randrange(4)
            h = h[k:4] + h[:k] + [h[k]]                        # start the hole at any of its corners
            a2 = sum(shell[i][0] * shell[i + 1][1] - shell[i + 1][0] * shell[i][1] for i in range(len(shell) - 1))
            if a2 > 0:
                h.reverse()
            rings.append(h)
        return rings
    if kind == "polygon":
        return geom.El([poly()])
    parts = []
    for k in range(rng.choice([1, 2, 3])):
        p = poly()
        off = 3 * lim * k
        parts.append([[[v[0] + off, v[1]] for v in ring] for ring in p])
    return geom.El(parts)


def record_traces(chk: Check, n_arrays, lim_choices=(3, 6, 20, 200, 4000)):
    recs = []
    for a in range(n_arrays):
        kind = geom.KINDS[a % len(geom.KINDS)]
        lim = chk.rng.choice(lim_choices if kind not in ("polygon", "multipolygon") else lim_choices[:4])
        n = chk.rng.choice([1, 2, 5, 17, 50])
        elems = [rand_element(chk.rng, kind, lim) for _ in range(n)]
        subtype = chk.rng.choice(geom.SUBTYPES)
        if not geom.representable(kind, elems, geom.IDENT, subtype):
            subtype = "float64"
        arr = geom.make_array(kind, elems, geom.IDENT, subtype)
        for _ in range(6):
            x0, x1 = sorted([chk.rng.randrange(-lim - 1, lim + 2) for _ in range(2)])
            y0, y1 = sorted([chk.rng.randrange(-lim - 1, lim + 2) for _ in range(2)])
            if kind not in ("point", "multipoint"):
                if x0 == x1:
                    x1 += 1
                if y0 == y1:
                    y1 += 1
            if kind in ("polygon", "multipolygon") and chk.rng.random() < 0.4:
                # a box strictly inside some hole, when there is one large enough
                holes = [r for e in elems if not e["null"] for part in e["g"] for r in part[1:]]
                if holes:
                    hr = chk.rng.choice(holes)
                    hx = sorted(v[0] for v in hr)
                    hy = sorted(v[1] for v in hr)
                    if hx[-1] - hx[0] >= 3 and hy[-1] - hy[0] >= 3:
                        x0, x1, y0, y1 = hx[0] + 1, hx[-1] - 1, hy[0] + 1, hy[-1] - 1
            box = geom.corner_orders((x0, y0, x1, y1))[chk.rng.randrange(4)]
            got = np.asarray(arr.intersects_bounds(box))
            chk.count(n)
            for i, e in enumerate(elems):
                recs.append(dict(op="box", kind=kind, null=e["null"], g=e["g"], box=list(box), res=int(got[i]),
                                 subtype=subtype))
    return recs


def validate(chk: Check, recs):
    verdicts, results = validate_trace("Trace_BoxHit", recs)
    chk.add_tlc(results)
    chk.traces += len(recs)
    tally = {}
    for rec, st in verdicts:
        v = st["verdict"]
        tally[v] = tally.get(v, 0) + 1
        if v == "ok":
            chk.nontrivial_case(hash((rec["kind"], repr(rec["g"]), tuple(rec.get("box") or rec.get("pt")))))
        if v == "mismatch":
            kind = rec["kind"]
            e = dict(null=rec["null"], g=rec["g"])
            if rec["op"] == "box":
                report(chk, kind, [geom.NULL, e], geom.IDENT, rec["subtype"], tuple(rec["box"]), rec["box"], 1,
                       "array(trace)", bool(rec["res"]), 1 - rec["res"])
    chk.notes["trace_verdicts"] = tally
    return tally


def run(tier: str, seed: int) -> int:
    chk = Check("C01", tier, seed)
    chk.notes["rule"] = ("spec->code: every element of MC_BoxHit's families x every box of the doubled grid, replayed in "
                         "4 affine images x 5 subtypes x forms {array, inds, scalar, GeoSeries} x corner orders; "
                         "code->spec: random arrays, every (element, box, result) judged by Trace_BoxHit. "
                         "non-trivial = (element, box) pair where the box neither contains nor is disjoint from the "
                         "element's bounding box (spec->code) or a judged trace record (code->spec), counted distinct")
    chk.assumptions = ["affine-lift argument of DESIGN §3.2 (order types are preserved by the exact images used)",
                       "TLC, the TLA+ value reader and harness/geom.py (construction of arrays from abstract elements)"]
    fams = FAMILIES_THOROUGH if tier == "thorough" else FAMILIES_QUICK
    data = generate(chk, fams)
    before = len(chk.violations) + sum(chk.known_hits.values())
    for fam, d in data.items():
        replay_family(chk, fam, d, tier)
    design_bad = sum(d["design_bad"] for d in data.values())
    if design_bad and len(chk.violations) + sum(chk.known_hits.values()) == before:
        raise MachineryError("MC_BoxHit: DesignAgrees violated but the code agrees with the oracle on every case: "
                             "SPGeomImpl mis-describes the code")
    chk.notes["design_states_disagreeing"] = design_bad
    chk.exhaustive = True
    recs = record_traces(chk, 40 if tier == "quick" else 600)
    validate(chk, recs)
    return chk.finish()
