"""C14 - length, area and boundary are the exact measures of each element.

design       : MC_Measure!DesignArea / DesignLength - compute_area (wrap-around term, < 3 vertex skip) and
               compute_line_length (breaks at non-finite vertices) transcriptions = SPMeasure on every element.
spec -> code : replayed on arrays (missing interleaved, derivations with non-zero offsets) x subtypes x isotropic
               exact images (incl. pure translations): area exact, length exact when every segment is Pythagorean,
               1e-12 relative otherwise; scalar = array; boundary = the rings, missing stays missing, same length.
code -> spec : random larger arrays with axis-parallel / Pythagorean segments judged by Trace_Measure."""
from __future__ import annotations

import math

import numpy as np

from . import c01, geom, measures as M
from .core import Check
from .tlc import MachineryError, validate_trace

FAM_QUICK = [("mlines", 3, 8, range(0, 4)), ("mmultilines", 3, 64, range(0, 6)), ("mrings", 3, 8, range(0, 4)),
             ("mpoly2", 5, 32, range(0, 4)), ("mmulti", 3, 512, range(0, 4)), ("mmulti2", 5, 8, range(0, 2)), ("mpoints", 3, 4, range(0, 1)),
             ("holed", 5, 16, range(0, 2)), ("mdegshell", 5, 4, range(0, 2))]
FAM_THOROUGH = [("mlines", 3, 8, None), ("mmultilines", 3, 16, None), ("mrings", 3, 8, None), ("mpoly2", 5, 16, None),
                ("mpoly3", 5, 8, None), ("mmulti", 3, 64, range(0, 16)), ("mmulti2", 5, 8, None), ("mpoints", 3, 2, None),
                ("holed", 5, 8, None), ("polygon", 3, 8, None), ("mdegshell", 5, 4, None)]

# isotropic exact images (length scales by s, area by s^2); two of them are pure translations
IMAGES = [geom.IDENT, geom.Affine(1.0, -7.0, 1.0, 11.0, name="translate"), geom.Affine(0.25, 3.0, 0.25, -5.0, name="quarter"),
          geom.Affine(1024.0, 2.0 ** 22, 1024.0, -(2.0 ** 22), name="big"), geom.Affine(1.0, 30000.0 - 8, 1.0, -30000.0, name="edge16"),
          # far from the origin: |x * y| > 2^53, so a shoelace that multiplies absolute coordinates is no longer exact
          geom.Affine(1.0, 300000007.0, 1.0, -200000011.0, name="far")]


def expected_length(sqlens, s):
    roots = [M.isqrt_exact(q) for q in sqlens]
    if all(r is not None for r in roots):
        return float(sum(roots)) * s, True
    return math.fsum(math.sqrt(q) for q in sqlens) * s, False


def close(got, want, exact):
    got = float(got)
    if math.isnan(want):
        return math.isnan(got)
    if exact:
        return got == want
    return abs(got - want) <= 1e-12 * max(1.0, abs(want))


def replay(chk: Check, cases, tier):
    rng = chk.rng
    nb = 0
    for kind, elems, exps in M.batches(cases, rng, size=40):
        nb += 1
        combos = []
        for k, aff in enumerate(IMAGES):
            for subtype in geom.SUBTYPES:
                if tier == "thorough" or (k * 5 + geom.SUBTYPES.index(subtype) + nb) % 6 == 0 or (aff is geom.IDENT and subtype == "float64"):
                    combos.append((aff, subtype))
        for aff, subtype in combos:
            integer = np.dtype(subtype).kind == "i"
            if integer and not aff.integral():
                continue
            keep = [i for i, e in enumerate(elems) if not (integer and geom.has_special(e))]
            els = [elems[i] for i in keep]
            xs = [exps[i] for i in keep]
            if not els or not geom.representable(kind, els, aff, subtype):
                continue
            s = aff.sx
            arr = geom.make_array(kind, els, aff, subtype)
            desc = repr([geom.to_py(kind, e, aff) if not integer else geom._to_int(geom.to_py(kind, e, aff)) for e in els])
            n = len(els)
            want_len, want_area = [], []
            for e, x in zip(els, xs):
                if x is None:
                    want_len.append((math.nan, True))
                    want_area.append(None if kind in ("point", "multipoint", "line", "ring", "multiline") else math.nan)
                else:
                    want_len.append(expected_length(x["sqlens"], s))
                    # area is claimed for closed rings (shoelace of a closed polygon) - P leaves open rings unspecified
                    want_area.append(x["area2"] * s * s / 2.0 if x["closed"] else None)
                    if x["sqlens"] and x["area2"] != 0:
                        chk.nontrivial_n += 1
            if n >= 3 and (nb + len(subtype)) % 4 == 0:
                # element-wise measures on a large array = the tiled measures of the small one (size thresholds, chunked kernels)
                big, bpos = M.tiled(arr)
                chk.count(2 * len(big))
                for what_, f_ in (("length", lambda a: a.length), ("area", lambda a: a.area)):
                    if not M.same_array(np.asarray(f_(big), dtype="float64"), np.asarray(f_(arr), dtype="float64")[bpos]):
                        fail(chk, kind, f"tiled to {len(big)} elements", subtype, aff, desc, f"{what_} of the large array vs the tiled {what_} of the small one", "differs", "equal", "tiled")
                if kind in ("polygon", "multipolygon"):
                    bl = np.asarray(big.boundary.length, dtype="float64")
                    if not M.same_array(bl, np.asarray(arr.boundary.length, dtype="float64")[bpos]):
                        fail(chk, kind, f"tiled to {len(big)} elements", subtype, aff, desc, "boundary.length of the large array", "differs", "equal", "tiled")
            for name, darr, pos in M.derivations(arr, n, rng):
                if name.startswith("take_fill") and kind in ("point", "multipoint"):
                    pass
                L = np.asarray(darr.length, dtype="float64")
                Ar = np.asarray(darr.area, dtype="float64")
                chk.count(2 * len(pos))
                if len(L) != len(pos) or len(Ar) != len(pos):
                    fail(chk, kind, name, subtype, aff, desc, "length/area result size", [len(L), len(Ar)], len(pos), "size")
                    continue
                for j, p in enumerate(pos):
                    wl, exact = want_len[p] if p >= 0 else (math.nan, True)
                    wa = want_area[p] if p >= 0 else (None if kind in ("point", "multipoint", "line", "ring", "multiline") else math.nan)
                    if kind in ("point", "multipoint"):
                        # length / area of (multi)points are identically 0; what they report for a missing element is not
                        # pinned down by the property text consistently (C14: NaN, code: 0) -> not judged (DESIGN §9)
                        if p >= 0 and xs[p] is not None and (L[j] != 0.0 or Ar[j] != 0.0):
                            fail(chk, kind, name, subtype, aff, desc, f"length/area of element {j}", [L[j], Ar[j]], [0.0, 0.0], "points")
                        continue
                    if not close(L[j], wl, exact):
                        fail(chk, kind, name, subtype, aff, desc, f"length of element {j} (source position {p})", float(L[j]), wl, "length")
                        break
                    if kind in ("line", "ring", "multiline"):
                        if p >= 0 and xs[p] is not None and Ar[j] != 0.0:
                            fail(chk, kind, name, subtype, aff, desc, f"area of element {j}", float(Ar[j]), 0.0, "area")
                        continue
                    if wa is not None and not close(Ar[j], wa, True):
                        fail(chk, kind, name, subtype, aff, desc, f"area of element {j} (source position {p})", float(Ar[j]), wa, "area")
                        break
                # scalar = array
                for j in range(0, len(pos), 3):
                    sc = darr[j]
                    if sc is None:
                        continue
                    sl, sa = float(sc.length), float(sc.area)
                    chk.count(2)
                    if not (M.same(sl, L[j]) or close(sl, float(L[j]), False)) or not M.same(sa, Ar[j]):
                        fail(chk, kind, name, subtype, aff, desc, f"scalar length/area of element {j}", [sl, sa], [float(L[j]), float(Ar[j])], "scalar")
                        break
                # boundary
                if kind in ("polygon", "multipolygon"):
                    b = darr.boundary
                    bl = np.asarray(b.length, dtype="float64")
                    isna = np.asarray(b.isna())
                    want_na = np.asarray(darr.isna())
                    if type(b).__name__ != "MultiLineArray" or len(b) != len(darr) or not np.array_equal(isna, want_na) or \
                            not all(M.same(x, y) for x, y in zip(bl, L)):
                        fail(chk, kind, name, subtype, aff, desc, "boundary (type, missing mask, length)",
                             [type(b).__name__, isna.tolist(), bl.tolist()], ["MultiLineArray", want_na.tolist(), L.tolist()], "boundary")
                    else:
                        # the boundary holds exactly the rings
                        got_el = geom.from_array("multiline", b, aff)
                        for j, p in enumerate(pos):
                            if p < 0 or els[p]["null"]:
                                continue
                            want_rings = [tuple(map(tuple, r)) for part in els[p]["g"] for r in part]
                            got_rings = [tuple(map(tuple, r)) for r in (got_el[j]["g"][0] if got_el[j]["g"] else [])]
                            if want_rings != got_rings:
                                fail(chk, kind, name, subtype, aff, desc, f"boundary rings of element {j}", got_rings, want_rings, "boundary")
                                break
                    for j in range(0, len(pos), 5):
                        sc = darr[j]
                        if sc is not None:
                            sb = sc.boundary
                            if type(sb).__name__ != "MultiLine" or not M.same(float(sb.length), L[j]):
                                fail(chk, kind, name, subtype, aff, desc, f"scalar boundary of element {j}", float(sb.length), float(L[j]), "boundary")
            if aff is geom.IDENT and subtype == "float64" and nb % 3 == 0:
                import spatialpandas as sp
                ser = sp.GeoSeries(arr, index=[f"k{i}" for i in range(n)])
                if not all(M.same(a, b) for a, b in zip(ser.length.values, arr.length)) or not all(M.same(a, b) for a, b in zip(ser.area.values, arr.area)) \
                        or list(ser.length.index) != list(ser.index):
                    fail(chk, kind, "GeoSeries", subtype, aff, desc, "GeoSeries.length/area", None, None, "geoseries")
                if n >= 2 and nb % 6 == 0:
                    import dask
                    import dask.dataframe as dd
                    with dask.config.set(scheduler="synchronous"):
                        ds = dd.from_pandas(sp.GeoSeries(arr), npartitions=min(3, n))
                        dl, da_ = ds.length.compute().values, ds.area.compute().values
                    if not all(M.same(a, b) for a, b in zip(dl, arr.length)) or not all(M.same(a, b) for a, b in zip(da_, arr.area)) or len(dl) != n:
                        fail(chk, kind, "DaskGeoSeries(3 partitions)", subtype, aff, desc, "DaskGeoSeries.length/area", None, None, "dask")
        if nb == 2:
            i = next((i for i, x in enumerate(exps) if x is not None), None)
            if i is not None:
                chk.sample({"kind": kind, "element": elems[i], "twice_area": exps[i]["area2"], "squared_segment_lengths": exps[i]["sqlens"]})


def fail(chk, kind, name, subtype, aff, desc, what, got, want, mode):
    cls = geom.ARRAY_TYPES[kind].__name__
    msg = f"{cls}[{subtype}] image={aff.name} derivation={name}: {what} = {got}, expected {want}\n  source array: {desc[:1500]}"
    replay = f"""import numpy as np
from numpy import nan, inf
from spatialpandas.geometry import {cls}
src = {cls}({desc}, dtype={subtype!r})
print('length', src.length.tolist()); print('area', src.area.tolist())
# derivation {name}; {what}: got {got}, expected {want}
"""
    chk.violation(f"{kind}|{mode}|{name.split('[')[0]}|{subtype}|{aff.name}", msg, replay,
                  ctx=dict(site=f"{cls}.{mode}", derivation=name.split("[")[0], subtype=subtype))


PYTH = [(3, 4), (4, 3), (5, 12), (12, 5), (8, 15), (6, 8), (0, 7), (9, 0), (0, 1), (2, 0)]


def pyth_path(rng, n, lim):
    """a vertex path whose segments are axis-parallel or Pythagorean (integer lengths)"""
    x, y = rng.randrange(-lim, lim), rng.randrange(-lim, lim)
    path = [[x, y]]
    for _ in range(n):
        dx, dy = rng.choice(PYTH)
        x += rng.choice((-1, 1)) * dx
        y += rng.choice((-1, 1)) * dy
        path.append([x, y])
    return path


def record(chk: Check, n):
    rng = chk.rng
    recs = []
    for a in range(n):
        kind = ["line", "multiline", "polygon", "multipolygon", "ring"][a % 5]
        lim = rng.choice((5, 50, 3000))
        def ring():
            p = pyth_path(rng, rng.choice([1, 2, 4, 7]), lim)
            return p + [p[0]] if kind in ("polygon", "multipolygon") else p
        if kind in ("line", "ring"):
            e = geom.El([[ring()]])
        elif kind in ("multiline", "polygon"):
            e = geom.El([[ring() for _ in range(rng.choice([1, 2, 3]))]])
        else:
            e = geom.El([[ring() for _ in range(rng.choice([1, 2]))] for _ in range(rng.choice([1, 2, 3]))])
        subtype = rng.choice(geom.SUBTYPES)
        if not geom.representable(kind, [e], geom.IDENT, subtype):
            subtype = "float64"
        arr = geom.make_array(kind, [geom.NULL, e, geom.NULL], geom.IDENT, subtype)[1:]
        L = float(arr.length[0])
        chk.count()
        if kind in ("polygon", "multipolygon"):
            # closing segments of random rings are not Pythagorean: log the area only
            a2 = float(arr.area[0]) * 2
            if a2 == int(a2):
                recs.append(dict(op="area", kind=kind, elems=[dict(null=False, g=e["g"]), dict(null=True, g=[])],
                                 res=[int(a2), geom.NAN if math.isnan(float(arr.area[1])) else 0]))
            b = arr.boundary
            recs.append(dict(op="boundary", kind=kind, elem=dict(null=False, g=e["g"]), res=geom.from_array("multiline", b[:1])[0]))
            recs.append(dict(op="boundary", kind=kind, elem=dict(null=True, g=[]), res=geom.from_array("multiline", b[1:])[0]))
        else:
            roots = []
            for part in e["g"]:
                for r in part:
                    for i in range(len(r) - 1):
                        q = (r[i + 1][0] - r[i][0]) ** 2 + (r[i + 1][1] - r[i][1]) ** 2
                        roots.append(math.isqrt(q))
            if L == int(L):
                recs.append(dict(op="length", kind=kind, elem=dict(null=False, g=e["g"]), roots=roots, res=int(L)))
            else:
                recs.append(dict(op="length", kind=kind, elem=dict(null=False, g=e["g"]), roots=roots, res=-1))
    return recs


def run(tier: str, seed: int) -> int:
    chk = Check("C14", tier, seed)
    chk.notes["rule"] = ("spec->code: elements of MC_Measure's families in arrays with missing elements x subtype x isotropic exact image "
                         "(two pure translations) x 11 derivations: length, area, scalar forms, boundary; code->spec: random Pythagorean "
                         "paths / rings judged by Trace_Measure. non-trivial = element with at least one segment and non-zero area "
                         "(per array built) or a trace record")
    chk.assumptions = ["lengths of non-Pythagorean segments are compared with math.fsum(sqrt) to 1e-12 relative - this comparison is outside the model",
                       "area is judged for closed rings only (the shoelace area of an open vertex list is not defined by the property)",
                       "length / area reported for a MISSING point, multipoint or line-area (code: 0.0) is not judged: the property text is not consistent about it"]
    fams = FAM_THOROUGH if tier == "thorough" else FAM_QUICK
    data, bad = M.generate(chk, fams, invariants=["DesignArea", "DesignLength"])
    before = len(chk.violations) + sum(chk.known_hits.values())
    for fam, cases in data.items():
        replay(chk, cases, tier)
    if bad and len(chk.violations) + sum(chk.known_hits.values()) == before:
        raise MachineryError(f"MC_Measure design invariants violated but the code agrees with the oracle: {bad[0]}")
    chk.exhaustive = True
    recs = record(chk, 200 if tier == "quick" else 4000)
    verdicts, tres = validate_trace("Trace_Measure", recs)
    chk.add_tlc(tres)
    chk.traces += len(recs)
    tally = {}
    for rec, st in verdicts:
        tally[st["verdict"]] = tally.get(st["verdict"], 0) + 1
        if st["verdict"] == "ok":
            chk.nontrivial_case(hash(repr(rec)))
        else:
            chk.violation("trace|" + rec["op"] + repr(rec)[:100], f"Trace_Measure rejects {rec['op']} record {rec!r}",
                          f"# {rec!r}\n", ctx=dict(site=f"{rec['kind']}.{rec['op']}", derivation="trace"))
    chk.notes["trace_verdicts"] = tally
    return chk.finish()
