"""Recording / fault-injecting fsspec filesystem for pack_partitions_to_parquet (C10 / C18 / C19).

Every TOP-LEVEL filesystem call (nested fsspec-internal calls are hidden by a per-thread depth counter) is logged with
  seq     sequence number taken under the recorder's lock (never wall-clock)
  op      method name (+ open mode)
  path    the path argument(s), made relative to the run's root
  origin  nearest function of /repo/spatialpandas on the Python stack (rm_retry, mkdirs_retry, write_partition, read_parquet_retry,
          write_concatted_part, move_retry, write_metadata_file, write_commonmetadata_file, concat_parts, pack_partitions_to_parquet,
          read_parquet, _perform_read_parquet_dask, ...)
  task    "main", "proc:<i>" (inside process_partition(df, i)) or "cat:<k>" (inside concat_parts for output partition k)
  res     result of observing calls (exists / isfile / isdir -> bool, ls -> sorted names) or "raise:<Exc>" for a failure
Faults: `plan` maps a 1-based top-level call number (or a predicate) to a fault kind: "OSError", "FileNotFoundError" (raised BEFORE the
effect) or "stale[:first|last|mid|all|tail2|ghost]" (ls only: the listing is returned with the first / last / middle entry hidden,
empty, without its last two entries, or with a ghost entry added; plain "stale" picks first or ghost at random)."""
from __future__ import annotations

import os
import random
import re
import sys
import threading
import time

from fsspec.implementations.local import LocalFileSystem

OBSERVE = {"exists", "isfile", "isdir", "ls", "info", "find", "glob", "expand_path", "du", "size", "walk", "listdir"}
MUTATE = {"makedirs", "mkdir", "rm", "rm_file", "rmdir", "mv", "move", "open", "touch", "cp_file", "copy", "pipe_file", "put", "get", "_rm"}
TRACKED = sorted(OBSERVE | MUTATE | {"invalidate_cache"})


_REPO_PKG = os.environ.get("VERIF_REPO", "/repo") + "/spatialpandas/"


class RecordingFS(LocalFileSystem):
    cachable = False

    def __init__(self, root, plan=None, delays=None, seed=0, **kw):
        super().__init__(**kw)
        self._root = os.path.abspath(root)
        self._lock = threading.Lock()
        self._tls = threading.local()
        self.events = []
        self.calls = 0
        self.plan = plan or {}
        self.fired = []
        self._delays = delays
        self._rng = random.Random(seed)

    # ------------------------------------------------------------------
    def _rel(self, p):
        if isinstance(p, (list, tuple)):
            return [self._rel(x) for x in p]
        p = str(p)
        if p.startswith("file://"):
            p = p[7:]
        if p.startswith(self._root):
            return os.path.relpath(p, self._root)
        return p

    def _origin(self):
        f = sys._getframe(2)
        origin, task = None, "main"
        while f is not None:
            fn = f.f_code.co_filename
            if fn.startswith(_REPO_PKG):
                name = f.f_code.co_name
                if origin is None:
                    origin = name
                if name == "process_partition":
                    task = f"proc:{f.f_locals.get('i')}"
                elif name == "concat_parts":
                    m = re.search(r"part\.(\d+)\.parquet$", str(f.f_locals.get("part_output_path")))
                    task = f"cat:{m.group(1) if m else '?'}"
            f = f.f_back
        return origin or "external", task

    def _call(self, op, fn, args, kwargs, path):
        depth = getattr(self._tls, "depth", 0)
        if depth > 0:
            return fn(*args, **kwargs)
        origin, task = self._origin()
        if self._delays:
            time.sleep(self._rng.random() * self._delays)
        with self._lock:
            self.calls += 1
            n = self.calls
            fault = self.plan.get(n)
            if fault is None:
                for key, val in self.plan.items():
                    if callable(key) and key(n, op, self._rel(path), origin, task):
                        fault = val
                        break
        ev = dict(n=n, op=op, path=self._rel(path), origin=origin, task=task)
        if fault in ("OSError", "FileNotFoundError") and op != "invalidate_cache":
            ev["res"] = "raise:" + fault
            ev["injected"] = True
            with self._lock:
                ev["seq"] = len(self.events) + 1
                self.events.append(ev)
                self.fired.append((n, op, fault))
            raise (OSError if fault == "OSError" else FileNotFoundError)(f"injected {fault} at call {n} ({op} {ev['path']})")
        self._tls.depth = depth + 1
        try:
            res = fn(*args, **kwargs)
        except Exception as ex:  # noqa: BLE001
            ev["res"] = "raise:" + type(ex).__name__
            with self._lock:
                ev["seq"] = len(self.events) + 1
                self.events.append(ev)
            raise
        finally:
            self._tls.depth = depth
        if op in ("exists", "isfile", "isdir"):
            ev["res"] = bool(res)
        elif op == "ls":
            names = sorted(self._rel(r["name"] if isinstance(r, dict) else r) for r in res)
            if isinstance(fault, str) and fault.startswith("stale"):
                ev["injected"] = True
                variant = fault.partition(":")[2] or ("first" if names and self._rng.random() < 0.5 else "ghost")
                nm = lambda r: self._rel(r["name"] if isinstance(r, dict) else r)  # noqa: E731
                if variant in ("first", "last", "mid") and names:
                    hide = {"first": names[0], "last": names[-1], "mid": names[len(names) // 2]}[variant]
                    res = [r for r in res if nm(r) != hide]
                elif variant == "all":
                    res = []
                elif variant == "tail2" and len(names) >= 2:
                    res = [r for r in res if nm(r) not in names[-2:]]
                else:
                    ghost = os.path.join(self._root, ev["path"] if isinstance(ev["path"], str) else "", "ghost.parquet")
                    res = list(res) + [ghost if not (res and isinstance(res[0], dict)) else dict(name=ghost, size=0, type="file")]
                with self._lock:
                    self.fired.append((n, op, fault))
                names = sorted(self._rel(r["name"] if isinstance(r, dict) else r) for r in res)
            ev["res"] = names
        with self._lock:
            ev["seq"] = len(self.events) + 1
            self.events.append(ev)
        return res


def _wrap(name):
    base = getattr(LocalFileSystem, name)

    def method(self, *args, **kwargs):
        path = args[0] if args else kwargs.get("path", kwargs.get("path1", ""))
        if name in ("mv", "move", "cp_file", "copy") and len(args) >= 2:
            path = [args[0], args[1]]
        op = name
        if name == "open":
            mode = args[1] if len(args) > 1 else kwargs.get("mode", "rb")
            op = "open:" + mode
        return self._call(op, lambda *a, **k: base(self, *a, **k), args, kwargs, path)
    method.__name__ = name
    return method


for _n in TRACKED:
    if hasattr(LocalFileSystem, _n):
        setattr(RecordingFS, _n, _wrap(_n))


def tree(root):
    """{relative path: 'dir' | 'file'} of everything under root"""
    out = {}
    for d, dirs, files in os.walk(root):
        for x in dirs:
            out[os.path.relpath(os.path.join(d, x), root)] = "dir"
        for x in files:
            out[os.path.relpath(os.path.join(d, x), root)] = "file"
    return out
