"""C13 - bounds and total_bounds are the tight extents of the geometry.

design       : MC_Measure!DesignBounds - bounds_interleaved over (values, outer offsets) = SPMeasure!Bounds on
               every element of the families (non-finite coordinates, empty / degenerate elements).
spec -> code : the same states replayed on all seven array types x subtypes x affine images x derivations
               (head / tail / middle slices, slice of slice, negative step, take +- fill, mask, concat, copy):
               bounds rows, total_bounds, total_bounds_x/y, GeoSeries, sindex.total_bounds, Dask.
code -> spec : random larger arrays; bounds / total_bounds judged by Trace_Measure."""
from __future__ import annotations

import math
import os

import numpy as np

from . import c01, geom, measures as M
from .core import Check
from .tlc import MachineryError, validate_trace

FAM_QUICK = [("mpoints", 3, 2, None), ("mlines", 3, 8, range(0, 4)), ("mmultilines", 3, 64, range(0, 4)),
             ("mrings", 3, 8, range(0, 4)), ("mpoly2", 5, 32, range(0, 4)), ("mmulti", 3, 512, range(0, 4)), ("mmulti2", 5, 8, range(0, 2))]
FAM_THOROUGH = [("mpoints", 3, 2, None), ("mlines", 3, 8, None), ("mmultilines", 3, 16, None), ("mrings", 3, 8, None),
                ("mpoly2", 5, 16, None), ("mpoly3", 5, 8, None), ("mmulti", 3, 64, range(0, 16)), ("mmulti2", 5, 8, None)]


def nanrow():
    return [math.nan] * 4


def check_array(chk, kind, name, darr, exp_rows, subtype, aff, src_desc, full):
    """compare every bounds-like quantity of the (derived) array with the rows the oracle expects"""
    import spatialpandas as sp
    ctx = dict(site=f"{type(darr).__name__}.bounds", derivation=name.split("[")[0])
    got = np.asarray(darr.bounds, dtype="float64")
    chk.count(len(exp_rows))
    if got.shape != (len(exp_rows), 4):
        fail(chk, kind, name, subtype, aff, src_desc, "bounds shape", list(got.shape), [len(exp_rows), 4], ctx)
        return
    for i, want in enumerate(exp_rows):
        if not M.rows_equal(got[i], want):
            fail(chk, kind, name, subtype, aff, src_desc, f"bounds row {i}", got[i].tolist(), want, ctx)
            break
    want_tb = M.total_from_rows(exp_rows)
    tb = [float(v) for v in darr.total_bounds]
    if not M.rows_equal(tb, want_tb):
        fail(chk, kind, name, subtype, aff, src_desc, "total_bounds", tb, want_tb, dict(ctx, site=f"{type(darr).__name__}.total_bounds"))
    tbx = [float(v) for v in darr.total_bounds_x]
    tby = [float(v) for v in darr.total_bounds_y]
    if not M.rows_equal(tbx, [want_tb[0], want_tb[2]]) or not M.rows_equal(tby, [want_tb[1], want_tb[3]]):
        fail(chk, kind, name, subtype, aff, src_desc, "total_bounds_x/y", [tbx, tby], want_tb, dict(ctx, site="total_bounds_x/y"))
    if full:
        s = sp.GeoSeries(darr, index=[f"i{j}" for j in range(len(darr))])
        b = s.bounds
        if list(b.columns) != ["x0", "y0", "x1", "y1"] or list(b.index) != list(s.index) or \
                not all(M.rows_equal(r, w) for r, w in zip(b.values, exp_rows)):
            fail(chk, kind, name, subtype, aff, src_desc, "GeoSeries.bounds", b.values.tolist(), exp_rows, dict(ctx, site="GeoSeries.bounds"))
        if not M.rows_equal([float(v) for v in s.total_bounds], want_tb):
            fail(chk, kind, name, subtype, aff, src_desc, "GeoSeries.total_bounds", list(s.total_bounds), want_tb, dict(ctx, site="GeoSeries.total_bounds"))
        partial = any(any(math.isnan(v) for v in r) and not all(math.isnan(v) for v in r) for r in exp_rows)
        if not partial:
            stb = [float(v) for v in darr.sindex.total_bounds]
            if not M.rows_equal(stb, want_tb):
                fail(chk, kind, name, subtype, aff, src_desc, "sindex.total_bounds", stb, want_tb, dict(ctx, site="sindex.total_bounds"))


def check_parquet_provenance(chk, kind, arr, exp_rows, subtype, aff, nparts):
    """Dask frames re-read from parquet: one dataset with recorded partition bounds (DaskGeoDataFrame.to_parquet) and one without
    (pandas-level to_parquet), alone and combined in one read_parquet_dask call - extents are those of the rows held"""
    import shutil
    import tempfile
    import dask.dataframe as dd
    import spatialpandas as sp
    from spatialpandas.io import read_parquet_dask, to_parquet
    n = len(arr)
    if n < 4:
        return
    h = n // 2
    df = sp.GeoDataFrame({"id": np.arange(n), "geometry": arr})
    tmp = tempfile.mkdtemp(prefix="c13-", dir=os.environ.get("TMPDIR") or "/var/tmp")
    try:
        pa_, pb_ = os.path.join(tmp, "a.parq"), os.path.join(tmp, "b.parq")
        dd.from_pandas(df.iloc[:h], npartitions=min(nparts, h)).to_parquet(pa_)
        to_parquet(df.iloc[h:], pb_)
        for label, paths, sel in (("with bounds metadata", pa_, list(range(h))), ("without metadata", pb_, list(range(h, n))),
                                  ("list [with, without]", [pa_, pb_], list(range(n))), ("list [without, with]", [pb_, pa_], list(range(h, n)) + list(range(h)))):
            f = read_parquet_dask(paths)
            rows = [exp_rows[i] for i in sel]
            want = M.total_from_rows(rows)
            tb = [float(v) for v in f.geometry.total_bounds]
            chk.count(len(rows))
            if not M.rows_equal(tb, want):
                fail(chk, kind, f"read_parquet_dask({label})", subtype, aff, "", "DaskGeoSeries.total_bounds of a frame re-read from parquet", tb, want,
                     dict(site="DaskGeoSeries.total_bounds", derivation="parquet-" + label.split()[0]))
                continue
            got = f.geometry.bounds.compute()
            if len(got) != len(rows) or not all(M.rows_equal(r, w) for r, w in zip(got.values, rows)):
                fail(chk, kind, f"read_parquet_dask({label})", subtype, aff, "", "DaskGeoSeries.bounds of a frame re-read from parquet", got.values.tolist(), rows,
                     dict(site="DaskGeoSeries.bounds", derivation="parquet"))
            pbt = f.geometry.partition_bounds
            if len(pbt) != f.npartitions:
                fail(chk, kind, f"read_parquet_dask({label})", subtype, aff, "", "number of partition_bounds rows", len(pbt), f.npartitions,
                     dict(site="DaskGeoSeries.partition_bounds", derivation="parquet"))
        # twelve stored partitions (labels '10', '11' sort before '2' as strings), re-read with a box that prunes some of them:
        # the extents reported for what is loaded are those of the rows loaded
        if n >= 12:
            pc = os.path.join(tmp, "c.parq")
            dd.from_pandas(df.iloc[:12], npartitions=12).to_parquet(pc)
            whole = read_parquet_dask(pc)
            cb = [r for r in exp_rows[:12] if not math.isnan(r[0])]
            if cb:
                box = (cb[len(cb) // 2][0], cb[len(cb) // 2][1], cb[len(cb) // 2][2] + 1.0, cb[len(cb) // 2][3] + 1.0)
                sub = read_parquet_dask(pc, bounds=box)
                loaded = sub.compute()
                chk.count(len(loaded))
                if len(loaded):
                    wantp = [float(v) for v in loaded.geometry.array.total_bounds]
                    gotp = [float(v) for v in sub.geometry.total_bounds]
                    if not M.rows_equal(gotp, wantp):
                        fail(chk, kind, f"12 stored partitions, read_parquet_dask(bounds={box})", subtype, aff, "", "DaskGeoSeries.total_bounds of the pruned frame", gotp, wantp,
                             dict(site="DaskGeoSeries.total_bounds", derivation="parquet-12-bounded"))
                    pbs = sub.geometry.partition_bounds
                    for k in range(sub.npartitions):
                        tp = [float(v) for v in sub.get_partition(k).compute().geometry.array.total_bounds]
                        gp = [float(pbs[c].iloc[k]) for c in ("x0", "y0", "x1", "y1")]
                        if not M.rows_equal(gp, tp):
                            fail(chk, kind, f"12 stored partitions, read_parquet_dask(bounds={box})", subtype, aff, "", f"partition_bounds row {k} of the pruned frame", gp, tp,
                                 dict(site="DaskGeoSeries.partition_bounds", derivation="parquet-12-bounded"))
                            break
    finally:
        shutil.rmtree(tmp, ignore_errors=True)


def check_dask(chk, kind, arr, exp_rows, subtype, aff, nparts):
    import dask.dataframe as dd
    import spatialpandas as sp
    s = sp.GeoSeries(arr)
    ds = dd.from_pandas(s, npartitions=nparts)
    got = ds.bounds.compute()
    chk.count(len(exp_rows))
    ctx = dict(site="DaskGeoSeries.bounds")
    if not all(M.rows_equal(r, w) for r, w in zip(got.values, exp_rows)) or len(got) != len(exp_rows):
        fail(chk, kind, f"dask(npartitions={nparts})", subtype, aff, "", "DaskGeoSeries.bounds", got.values.tolist(), exp_rows, ctx)
    want_tb = M.total_from_rows(exp_rows)
    tb = [float(v) for v in ds.total_bounds]
    if not M.rows_equal(tb, want_tb):
        fail(chk, kind, f"dask(npartitions={nparts})", subtype, aff, "", "DaskGeoSeries.total_bounds", tb, want_tb,
             dict(site="DaskGeoSeries.total_bounds"))
    # partitions without any extent (all missing) at the FIRST, a middle and the last position: the frame's extent is that of the others
    if len(exp_rows) >= 2:
        import dask as _dask
        blank = sp.GeoSeries(type(arr)([None, None], dtype=arr.dtype))
        half = len(arr) // 2
        for where, pieces in (("first", [blank, s.iloc[:half], s.iloc[half:]]), ("middle", [s.iloc[:half], blank, s.iloc[half:]]), ("last", [s.iloc[:half], s.iloc[half:], blank])):
            dsb = dd.from_delayed([_dask.delayed(p_) for p_ in pieces], meta=s.iloc[:0])
            tbb = [float(v) for v in dsb.total_bounds]
            if not M.rows_equal(tbb, want_tb):
                fail(chk, kind, f"dask, all-missing partition {where}", subtype, aff, "", "DaskGeoSeries.total_bounds", tbb, want_tb, dict(site="DaskGeoSeries.total_bounds", derivation="blank-" + where))
    # a frame whose partition bounds are already cached, then row-filtered: the filtered frame's extents are its own
    if len(exp_rows) >= 4:
        df = sp.GeoDataFrame({"id": np.arange(len(arr)), "geometry": arr})
        ddf = dd.from_pandas(df, npartitions=nparts)
        ddf.partition_sindex  # noqa: B018
        # drop every row that attains an extreme of the total extent, so that the filtered frame's extent really shrinks
        keep = [i for i in range(len(arr)) if not any((not math.isnan(exp_rows[i][c])) and exp_rows[i][c] == want_tb[c] for c in range(4))]
        if len(keep) in (0, len(arr)):
            keep = [i for i in range(len(arr)) if i % 3 != 0]
        f = ddf[ddf["id"].isin(keep)]
        ftb = [float(v) for v in f.geometry.total_bounds]
        want_f = M.total_from_rows([exp_rows[i] for i in keep])
        if not M.rows_equal(ftb, want_f):
            fail(chk, kind, f"dask(npartitions={nparts}) ; partition_sindex ; row filter", subtype, aff, "", "filtered DaskGeoDataFrame geometry.total_bounds", ftb, want_f,
                 dict(site="DaskGeoSeries.total_bounds", derivation="dask-filter"))
        ptb = [float(v) for v in ddf.geometry.total_bounds]
        if not M.rows_equal(ptb, want_tb):
            fail(chk, kind, f"dask(npartitions={nparts}) ; partition_sindex ; row filter ; parent", subtype, aff, "", "parent total_bounds after the child was queried", ptb, want_tb,
                 dict(site="DaskGeoSeries.total_bounds", derivation="dask-filter-parent"))


def fail(chk, kind, name, subtype, aff, src_desc, what, got, want, ctx):
    cls = geom.ARRAY_TYPES[kind].__name__
    msg = f"{cls}[{subtype}] image={aff.name} derivation={name}: {what} = {got}, expected {want}\n  source array: {src_desc[:1500]}"
    replay = f"""import numpy as np
from numpy import nan, inf
from spatialpandas.geometry import {cls}
src = {cls}({src_desc}, dtype={subtype!r})
print('derivation: {name}  (apply it to src as named: head[:k] = src[:k], tail[a:] = src[a:], take[...] = src.take([...]), ...)')
print('bounds', src.bounds.tolist()); print('total_bounds', src.total_bounds)
# {what}: got {got}, expected {want}
"""
    chk.violation(f"{kind}|{what}|{name.split('[')[0]}|{subtype}", msg, replay, ctx=ctx)


def replay(chk: Check, cases, tier):
    rng = chk.rng
    combos = [(geom.IDENT, "float64"), (geom.IMAGES[1], "float64"), (geom.IMAGES[2], "float32"), (geom.IMAGES[3], "float32"),
              (geom.IDENT, "int64"), (geom.IMAGES[3], "int32"), (geom.IDENT, "int16"), (geom.IMAGES[2], "float64")]
    nb = 0
    for kind, elems, exps in M.batches(cases, rng, size=40):
        nb += 1
        use = combos if tier == "thorough" else [combos[0], combos[(nb % (len(combos) - 1)) + 1], combos[((nb + 3) % (len(combos) - 1)) + 1]]
        for aff, subtype in use:
            integer = np.dtype(subtype).kind == "i"
            if integer and not aff.integral():
                continue
            keep = [i for i, e in enumerate(elems) if not (integer and geom.has_special(e))]
            els = [elems[i] for i in keep]
            if not els or not geom.representable(kind, els, aff, subtype):
                continue
            rows = [M.bounds_row(exps[i]["bounds"], aff) if exps[i] is not None else nanrow() for i in keep]
            arr = geom.make_array(kind, els, aff, subtype)
            desc = repr([geom.to_py(kind, e, aff) if not integer else geom._to_int(geom.to_py(kind, e, aff)) for e in els])
            n = len(els)
            chk.nontrivial_n += sum(1 for r in rows if not math.isnan(r[0]) and (r[0] != r[2] or r[1] != r[3]))
            for name, darr, pos in M.derivations(arr, n, rng):
                exp_rows = [rows[p] if p >= 0 else nanrow() for p in pos]
                check_array(chk, kind, name, darr, exp_rows, subtype, aff, desc, full=(aff is geom.IDENT or tier == "thorough"))
            if n >= 3 and nb % 5 == 0:
                big, bpos = M.tiled(arr)
                small_b = np.asarray(arr.bounds, dtype="float64").reshape(-1, 4)
                chk.count(len(big))
                if not M.same_array(np.asarray(big.bounds, dtype="float64").reshape(-1, 4), small_b[bpos]):
                    fail(chk, kind, f"tiled to {len(big)} elements", subtype, aff, desc, "bounds of the large array vs the tiled bounds of the small one", "differs", "equal",
                         dict(site="bounds", derivation="tiled"))
                if not M.same_array(np.asarray(big.total_bounds, dtype="float64"), np.asarray(arr.total_bounds, dtype="float64")):
                    fail(chk, kind, f"tiled to {len(big)} elements", subtype, aff, desc, "total_bounds of the large array", [float(v) for v in big.total_bounds],
                         [float(v) for v in arr.total_bounds], dict(site="total_bounds", derivation="tiled"))
            if aff is geom.IDENT and subtype == "float64" and nb % 4 == 0:
                check_dask(chk, kind, arr, rows, subtype, aff, nparts=1 + nb % 3)
                if nb % 3 == 0 and aff is geom.IDENT:
                    check_parquet_provenance(chk, kind, arr, rows, subtype, aff, nparts=1 + nb % 2)
        if nb == 1:
            chk.sample({"kind": kind, "element": elems[1], "expected_bounds": exps[1]["bounds"] if exps[1] else None})
    # zero rows
    for kind in geom.KINDS:
        arr = geom.make_array(kind, [], geom.IDENT, "float64")
        check_array(chk, kind, "zero-rows", arr, [], "float64", geom.IDENT, "[]", full=True)


def enc(v):
    v = float(v)
    if math.isnan(v):
        return geom.NAN
    if math.isinf(v):
        return geom.PINF if v > 0 else geom.NINF
    assert v == int(v)
    return int(v)


def record(chk: Check, n_arrays):
    recs = []
    rng = chk.rng
    for a in range(n_arrays):
        kind = geom.KINDS[a % 7]
        lim = rng.choice((3, 20, 4000))
        elems = [c01.rand_element(rng, kind, lim) for _ in range(rng.choice([0, 1, 3, 9, 25]))]
        if rng.random() < 0.4 and kind != "point":          # sprinkle non-finite coordinates
            for e in elems:
                if not e["null"]:
                    for part in e["g"]:
                        for ring in part:
                            for v in ring:
                                if rng.random() < 0.1:
                                    v[rng.randrange(2)] = rng.choice([geom.NAN, geom.PINF, geom.NINF])
        subtype = "float64" if any(geom.has_special(e) for e in elems) else rng.choice(geom.SUBTYPES)
        if not geom.representable(kind, elems, geom.IDENT, subtype):
            subtype = "float64"
        arr = geom.make_array(kind, elems, geom.IDENT, subtype)
        if len(elems) > 2 and rng.random() < 0.5:
            a0 = rng.randrange(len(elems))
            arr = arr[a0:]
            elems = elems[a0:]
        rows = [[enc(v) for v in r] for r in np.asarray(arr.bounds, dtype="float64").reshape(-1, 4)]
        chk.count(len(elems))
        jel = [dict(null=e["null"], g=e["g"]) for e in elems]
        recs.append(dict(op="bounds", kind=kind, elems=jel, rows=rows))
        recs.append(dict(op="total", kind=kind, elems=jel, res=[enc(v) for v in arr.total_bounds]))
    return recs


def run(tier: str, seed: int) -> int:
    chk = Check("C13", tier, seed)
    chk.notes["rule"] = ("spec->code: elements of MC_Measure's families (non-finite coordinates, empty, degenerate) in arrays with "
                         "missing elements interleaved x subtype / affine image x 11 derivations, comparing bounds rows, total_bounds(_x/_y), "
                         "GeoSeries, sindex.total_bounds, Dask; code->spec: random arrays judged by Trace_Measure. "
                         "non-trivial = element whose bounds are defined and not a single point (counted per array built), or a trace record")
    chk.assumptions = ["total bounds expected in the replay are aggregated (min / max over defined entries) from the oracle's per-element rows; "
                       "SPMeasure!TotalBounds itself judges the code->spec records",
                       "sindex.total_bounds is compared only for arrays without partially-NaN bounds rows"]
    fams = FAM_THOROUGH if tier == "thorough" else FAM_QUICK
    data, bad = M.generate(chk, fams, invariants=["DesignBounds"])
    before = len(chk.violations) + sum(chk.known_hits.values())
    for fam, cases in data.items():
        replay(chk, cases, tier)
    if bad and len(chk.violations) + sum(chk.known_hits.values()) == before:
        raise MachineryError(f"MC_Measure!DesignBounds violated but the code agrees with the oracle: {bad[0]}")
    chk.exhaustive = True
    recs = record(chk, 60 if tier == "quick" else 1500)
    verdicts, tres = validate_trace("Trace_Measure", recs)
    chk.add_tlc(tres)
    chk.traces += len(recs)
    tally = {}
    for rec, st in verdicts:
        tally[st["verdict"]] = tally.get(st["verdict"], 0) + 1
        if st["verdict"] == "ok" and rec["elems"]:
            chk.nontrivial_case(hash(repr(rec)))
        if st["verdict"] == "mismatch":
            chk.violation("trace|" + rec["op"] + repr(rec["elems"])[:80],
                          f"Trace_Measure rejects {rec['op']} of a random {rec['kind']} array: elements {rec['elems']!r} -> "
                          f"{rec.get('rows', rec.get('res'))!r}", f"# kind {rec['kind']}\n# elements {rec['elems']!r}\n",
                          ctx=dict(site=f"{rec['kind']}.{rec['op']}", derivation="trace"))
    chk.notes["trace_verdicts"] = tally
    return chk.finish()
