"""/verif/check <ID> [--tier quick|thorough] [--replay path]"""
from __future__ import annotations

import argparse
import importlib
import os
import subprocess
import sys
import traceback


def main(argv=None):
    ap = argparse.ArgumentParser()
    ap.add_argument("pid")
    ap.add_argument("--tier", default=os.environ.get("VERIF_TIER", "quick"), choices=["quick", "thorough"])
    ap.add_argument("--replay")
    args = ap.parse_args(argv)
    seed = int(os.environ.get("VERIF_SEED", "0") or 0)
    if args.replay:
        return subprocess.call([sys.executable, args.replay])
    from .tlc import MachineryError
    try:
        mod = importlib.import_module(f"harness.{args.pid.lower()}")
        return mod.run(args.tier, seed)
    except MachineryError as ex:
        print(f"MACHINERY-ERROR {args.pid}: {ex}", file=sys.stderr)
        return 2
    except Exception as ex:
        traceback.print_exc()
        # An exception raised INSIDE the library under test (innermost library frame below the last harness frame) at a place where the
        # harness does not expect one is a failure of the operation, not of the machinery: report it as a violation with the traceback
        # as the replay.  (On the unchanged tree every check runs to completion, so this only speaks about changed code.)
        repo_pkg = os.environ.get("VERIF_REPO", "/repo") + "/spatialpandas/"
        frames = traceback.extract_tb(ex.__traceback__)
        last_harness = max((i for i, f in enumerate(frames) if "/harness/" in f.filename), default=-1)
        inside = [f for f in frames[last_harness + 1:] if f.filename.startswith(repo_pkg)]
        if inside and args.pid.upper() != "SELFTEST":
            from . import core
            os.makedirs(core.REPLAYS, exist_ok=True)
            path = os.path.join(core.REPLAYS, f"{args.pid.upper()}_raises_{abs(hash(inside[-1].filename + str(inside[-1].lineno))) % 10 ** 8:08d}.txt")
            with open(path, "w") as f:
                f.write(f"{args.pid}: the library raised {type(ex).__name__}: {ex}\nwhere the check expects a result\n\n" + traceback.format_exc())
            print(f"VIOLATION property={args.pid.upper()} replay={path}")
            print(f"  the library raised {type(ex).__name__}: {ex} (in {inside[-1].filename}:{inside[-1].lineno} {inside[-1].name}) where the check expects a result")
            return 1
        print(f"MACHINERY-ERROR {args.pid}: unexpected exception in the harness", file=sys.stderr)
        return 2


if __name__ == "__main__":
    sys.exit(main())
