"""/verif/check <ID> [--tier quick|thorough] [--replay path]"""
from __future__ import annotations

import argparse
import importlib
import os
import subprocess
import sys
import traceback


def main(argv=None):
    ap = argparse.ArgumentParser()
    ap.add_argument("pid")
    ap.add_argument("--tier", default=os.environ.get("VERIF_TIER", "quick"), choices=["quick", "thorough"])
    ap.add_argument("--replay")
    args = ap.parse_args(argv)
    seed = int(os.environ.get("VERIF_SEED", "0") or 0)
    if args.replay:
        return subprocess.call([sys.executable, args.replay])
    from .tlc import MachineryError
    try:
        mod = importlib.import_module(f"harness.{args.pid.lower()}")
        return mod.run(args.tier, seed)
    except MachineryError as ex:
        print(f"MACHINERY-ERROR {args.pid}: {ex}", file=sys.stderr)
        return 2
    except Exception:
        traceback.print_exc()
        print(f"MACHINERY-ERROR {args.pid}: unexpected exception in the harness", file=sys.stderr)
        return 2


if __name__ == "__main__":
    sys.exit(main())
