"""Operations of C18 run under one (NUMBA_NUM_THREADS, scheduler, workers, seed) setting; prints one JSON line {name: digest}.
Run as a subprocess (the numba thread count must be set before import):  python -m harness.c18_ops <scheduler> <workers> <seed> <repeat>"""
from __future__ import annotations

import hashlib
import json
import os
import shutil
import sys
import tempfile

import numpy as np


def digest(x):
    return hashlib.sha1(repr(x).encode()).hexdigest()[:16]


_LARGE = {}


def large_arrays(sp):
    """~70000 elements of every kind: a catalogue of 97 random elements (one missing) tiled by concatenation"""
    if _LARGE:
        return _LARGE
    from spatialpandas.geometry import (LineArray, MultiLineArray, MultiPointArray, MultiPolygonArray, PointArray, PolygonArray, RingArray)
    r = np.random.RandomState(11)

    def sq(x, y, w):
        return [float(x), float(y), float(x + w), float(y), float(x + w), float(y + w), float(x), float(y + w), float(x), float(y)]

    k = 97
    xy = r.randint(0, 180, size=(k, 2))
    w = r.randint(2, 40, size=k)
    small = {
        "point": PointArray([[float(a), float(b)] for a, b in xy]),
        "multipoint": MultiPointArray([[float(a), float(b), float(a + c), float(b + 1)] for (a, b), c in zip(xy, w)]),
        "line": LineArray([[float(a), float(b), float(a + c), float(b + c // 2), float(a), float(b + c)] for (a, b), c in zip(xy, w)]),
        "multiline": MultiLineArray([[[float(a), float(b), float(a + c), float(b)], [float(a), float(b + c), float(a + c), float(b + c)]] for (a, b), c in zip(xy, w)]),
        "ring": RingArray([sq(a, b, c) for (a, b), c in zip(xy, w)]),
        "polygon": PolygonArray([[sq(a, b, c)] for (a, b), c in zip(xy, w)]),
        "multipolygon": MultiPolygonArray([[[sq(a, b, c)], [sq(a + c + 3, b, c // 2 + 1)]] for (a, b), c in zip(xy, w)]),
    }
    for name, arr in small.items():
        withna = type(arr)._concat_same_type([arr[:50], type(arr)([None], dtype=arr.dtype), arr[50:]])
        # 98 * 719 + 3 = 70465 elements: odd, = 1 mod 4, ceil(n / 8) odd - a kernel that cuts the flat coordinate values into one
        # chunk per numba thread gets chunks of odd length for 2, 4 and 16 threads
        _LARGE[name] = type(arr)._concat_same_type([withna] * 719 + [withna[:3]])
    return _LARGE


def main():
    scheduler, workers, seed, repeat = sys.argv[1], int(sys.argv[2]), int(sys.argv[3]), int(sys.argv[4])
    import dask
    import dask.dataframe as dd
    import spatialpandas as sp
    from spatialpandas.geometry import LineArray, PointArray, PolygonArray
    from spatialpandas.io import read_parquet_dask
    sys.setswitchinterval(1e-6)
    rng = np.random.RandomState(7)
    n = 600
    pts = rng.randint(0, 200, size=(n, 2)).astype("float64")
    lines = [[float(a), float(b), float(a + rng.randint(1, 9)), float(b + rng.randint(-5, 6)), float(a + 3), float(b + 7)] for a, b in rng.randint(0, 200, size=(n, 2))]
    polys = []
    for k in range(40):
        x, y, w = rng.randint(0, 180), rng.randint(0, 180), rng.randint(5, 30)
        polys.append([[float(x), float(y), float(x + w), float(y), float(x + w), float(y + w), float(x), float(y + w), float(x), float(y)]])
    left = sp.GeoDataFrame({"id": np.arange(n), "geometry": PointArray(pts), "lines": LineArray(lines)})
    right = sp.GeoDataFrame({"rid": np.arange(40), "geometry": PolygonArray(polys)})
    boxes = [(10.5, 60.5, 20.5, 90.5), (0, 200, 0, 200), (150.5, 151.5, 3.5, 190.5)]
    out = {}
    kw = dict(scheduler=scheduler)
    if scheduler == "threads":
        kw["num_workers"] = workers
    tmp = tempfile.mkdtemp(prefix="c18ops-", dir=os.environ.get("TMPDIR") or "/var/tmp")
    try:
        with dask.config.set(**kw):
            for rep in range(repeat):
                ddf = dd.from_pandas(left, npartitions=5)
                res = {}
                res["cx"] = [list(ddf.cx[b[0]:b[1], b[2]:b[3]].compute()["id"]) for b in boxes]
                res["cx_lines"] = [list(ddf.set_geometry("lines").cx[b[0]:b[1], b[2]:b[3]].compute()["id"]) for b in boxes]
                res["sjoin_inner"] = sorted(map(tuple, sp.sjoin(ddf, right, how="inner").compute()[["id", "rid"]].values.tolist()))
                res["sjoin_left"] = sorted((int(a), -1 if b != b else int(b)) for a, b in sp.sjoin(ddf, right, how="left").compute()[["id", "rid"]].values.tolist())
                res["bounds"] = ddf.geometry.bounds.compute().values.tolist()
                res["length"] = ddf["lines"].length.compute().values.tolist()
                res["area"] = dd.from_pandas(right, npartitions=3).geometry.area.compute().values.tolist()
                res["intersects_bounds"] = ddf["lines"].intersects_bounds((20.0, 20.0, 90.0, 60.0)).compute().values.tolist()
                res["total_bounds"] = [float(v) for v in ddf.geometry.total_bounds]
                packed = ddf.pack_partitions(npartitions=4, p=10)
                res["pack_partitions"] = [list(map(int, packed.get_partition(k).compute().index)) for k in range(4)]
                res["pack_rows"] = sorted(map(int, packed.compute()["id"]))
                path = os.path.join(tmp, f"ds{rep}.parq")
                back = ddf.pack_partitions_to_parquet(path, npartitions=6, p=9, _retry_args=dict(stop_max_attempt_number=3, wait_fixed=1))
                res["pack_to_parquet"] = [[(int(k), int(i)) for k, i in zip(p.index, p["id"])] for p in (back.get_partition(j).compute() for j in range(back.npartitions))]
                rd = read_parquet_dask(path, bounds=(0, 0, 60, 60))
                res["read_parquet_dask_bounds"] = sorted(map(int, rd.compute()["id"]))
                res["tree"] = sorted(os.listdir(path))
                # pandas level with numba kernels (thread count matters only through numba)
                res["pandas_cx_index"] = [list(left.copy().build_sindex(page_size=16).cx[b[0]:b[1], b[2]:b[3]]["id"]) for b in boxes]
                res["pandas_sjoin"] = sorted(map(tuple, sp.sjoin(left, right)[["id", "rid"]].values.tolist()))
                # large arrays (a kernel may switch to a parallel build above a size threshold): every kind, > 2^16 elements
                if rep == 0 or repeat <= 3:
                    for name, big in large_arrays(sp).items():
                        q = (30.5, 20.5, 120.5, 95.5)
                        res[f"big_{name}_intersects_bounds"] = digest(np.asarray(big.intersects_bounds(q)).tobytes())
                        inds = np.arange(len(big) - 1, -1, -3)
                        res[f"big_{name}_intersects_bounds_inds"] = digest(np.asarray(big.intersects_bounds(q, inds)).tobytes())
                        res[f"big_{name}_bounds"] = digest(np.asarray(big.bounds).tobytes())
                        res[f"big_{name}_total_bounds"] = [float(v) for v in big.total_bounds] + [float(v) for v in big.total_bounds_x] + [float(v) for v in big.total_bounds_y]
                        res[f"big_{name}_length_area"] = digest(np.asarray(big.length).tobytes() + np.asarray(big.area).tobytes())
                        res[f"big_{name}_cx"] = digest(np.asarray(big.cx[q[0]:q[2], q[1]:q[3]].bounds).tobytes())
                        res[f"big_{name}_hilbert"] = digest(np.asarray(big.hilbert_distance(p=12)).tobytes())
                d = {k: digest(v) for k, v in res.items()}
                for k, v in d.items():
                    if out.setdefault(k, v) != v:
                        out[k] = "UNSTABLE"
    finally:
        shutil.rmtree(tmp, ignore_errors=True)
    print("C18OPS " + json.dumps(out, sort_keys=True))


if __name__ == "__main__":
    main()
