"""Operations of C18 run under one (NUMBA_NUM_THREADS, scheduler, workers, seed) setting; prints one JSON line {name: digest}.
Run as a subprocess (the numba thread count must be set before import):  python -m harness.c18_ops <scheduler> <workers> <seed> <repeat>"""
from __future__ import annotations

import hashlib
import json
import os
import shutil
import sys
import tempfile

import numpy as np


def digest(x):
    return hashlib.sha1(repr(x).encode()).hexdigest()[:16]


def main():
    scheduler, workers, seed, repeat = sys.argv[1], int(sys.argv[2]), int(sys.argv[3]), int(sys.argv[4])
    import dask
    import dask.dataframe as dd
    import spatialpandas as sp
    from spatialpandas.geometry import LineArray, PointArray, PolygonArray
    from spatialpandas.io import read_parquet_dask
    sys.setswitchinterval(1e-6)
    rng = np.random.RandomState(7)
    n = 600
    pts = rng.randint(0, 200, size=(n, 2)).astype("float64")
    lines = [[float(a), float(b), float(a + rng.randint(1, 9)), float(b + rng.randint(-5, 6)), float(a + 3), float(b + 7)] for a, b in rng.randint(0, 200, size=(n, 2))]
    polys = []
    for k in range(40):
        x, y, w = rng.randint(0, 180), rng.randint(0, 180), rng.randint(5, 30)
        polys.append([[float(x), float(y), float(x + w), float(y), float(x + w), float(y + w), float(x), float(y + w), float(x), float(y)]])
    left = sp.GeoDataFrame({"id": np.arange(n), "geometry": PointArray(pts), "lines": LineArray(lines)})
    right = sp.GeoDataFrame({"rid": np.arange(40), "geometry": PolygonArray(polys)})
    boxes = [(10.5, 60.5, 20.5, 90.5), (0, 200, 0, 200), (150.5, 151.5, 3.5, 190.5)]
    out = {}
    kw = dict(scheduler=scheduler)
    if scheduler == "threads":
        kw["num_workers"] = workers
    tmp = tempfile.mkdtemp(prefix="c18ops-", dir=os.environ.get("TMPDIR") or "/var/tmp")
    try:
        with dask.config.set(**kw):
            for rep in range(repeat):
                ddf = dd.from_pandas(left, npartitions=5)
                res = {}
                res["cx"] = [list(ddf.cx[b[0]:b[1], b[2]:b[3]].compute()["id"]) for b in boxes]
                res["cx_lines"] = [list(ddf.set_geometry("lines").cx[b[0]:b[1], b[2]:b[3]].compute()["id"]) for b in boxes]
                res["sjoin_inner"] = sorted(map(tuple, sp.sjoin(ddf, right, how="inner").compute()[["id", "rid"]].values.tolist()))
                res["sjoin_left"] = sorted((int(a), -1 if b != b else int(b)) for a, b in sp.sjoin(ddf, right, how="left").compute()[["id", "rid"]].values.tolist())
                res["bounds"] = ddf.geometry.bounds.compute().values.tolist()
                res["length"] = ddf["lines"].length.compute().values.tolist()
                res["area"] = dd.from_pandas(right, npartitions=3).geometry.area.compute().values.tolist()
                res["intersects_bounds"] = ddf["lines"].intersects_bounds((20.0, 20.0, 90.0, 60.0)).compute().values.tolist()
                res["total_bounds"] = [float(v) for v in ddf.geometry.total_bounds]
                packed = ddf.pack_partitions(npartitions=4, p=10)
                res["pack_partitions"] = [list(map(int, packed.get_partition(k).compute().index)) for k in range(4)]
                res["pack_rows"] = sorted(map(int, packed.compute()["id"]))
                path = os.path.join(tmp, f"ds{rep}.parq")
                back = ddf.pack_partitions_to_parquet(path, npartitions=6, p=9, _retry_args=dict(stop_max_attempt_number=3, wait_fixed=1))
                res["pack_to_parquet"] = [[(int(k), int(i)) for k, i in zip(p.index, p["id"])] for p in (back.get_partition(j).compute() for j in range(back.npartitions))]
                rd = read_parquet_dask(path, bounds=(0, 0, 60, 60))
                res["read_parquet_dask_bounds"] = sorted(map(int, rd.compute()["id"]))
                res["tree"] = sorted(os.listdir(path))
                # pandas level with numba kernels (thread count matters only through numba)
                res["pandas_cx_index"] = [list(left.copy().build_sindex(page_size=16).cx[b[0]:b[1], b[2]:b[3]]["id"]) for b in boxes]
                res["pandas_sjoin"] = sorted(map(tuple, sp.sjoin(left, right)[["id", "rid"]].values.tolist()))
                d = {k: digest(v) for k, v in res.items()}
                for k, v in d.items():
                    if out.setdefault(k, v) != v:
                        out[k] = "UNSTABLE"
    finally:
        shutil.rmtree(tmp, ignore_errors=True)
    print("C18OPS " + json.dumps(out, sort_keys=True))


if __name__ == "__main__":
    main()
