"""World.tla behaviours (TLC -simulate) replayed on real objects: cross-feature histories, every observation compared."""
from __future__ import annotations

import glob
import math
import os
import pickle
import re
import shutil
import tempfile

import numpy as np
import pandas as pd

from . import c04, geom
from .tlaval import parse_state
from .tlc import run_tlc, scratch

# (kind of column "ga", its catalogue, kind of column "gb", its catalogue, kind / catalogue of the right frame of sjoin)
CONFIGS = [("point", "CatPoint", "line", "CatLine", "polygon", "CatPolygon"), ("line", "CatLine", "point", "CatPoint", "polygon", "CatPolygon"),
           ("polygon", "CatPolygon", "multipoint", "CatMultiPoint", "line", "CatLine"),
           ("multipolygon", "CatMultiPolygon", "point", "CatPoint", "polygon", "CatPolygon"),
           ("multiline", "CatMultiLine", "ring", "CatRing", "polygon", "CatPolygon")]


def simulate(kind, cat, kind2, cat2, rkind, rcat, num, depth, seed, n=4, bias="none"):
    wd = scratch("world")
    os.makedirs(os.path.join(wd, "tr"))
    r = run_tlc("MC_World", cfg=dict(spec="Spec", constants=dict(Kind1=kind, Elems1="<- " + cat, Kind2=kind2, Elems2="<- " + cat2, RKind=rkind, RElems="<- " + rcat,
                                                                 N=n, MaxOps=depth, Bias=bias), invariants=["RowsSane"]),
                workers=1, simulate=f"file={wd}/tr/b,num={num}", depth=depth + 2, seed=seed, timeout=3000)
    behaviours = []
    for f in sorted(glob.glob(os.path.join(wd, "tr", "*"))):
        text = open(f).read()
        states = re.split(r"STATE_\d+ ==", text)[1:]
        if not states:
            continue
        first = parse_state(re.split(r"\n\\\*", states[0])[0].split("=====")[0])
        last = parse_state(re.split(r"\n\\\*", states[-1])[0].split("=====")[0])
        behaviours.append((first["rows"], last["hist"], last))
    return r, behaviours


def fl(v):
    return math.nan if v == geom.NAN else float(v)


def replay(chk, kinds, catelems, rkind, rcat_elems, rows0, hist, tmp, tag):
    """returns number of observations compared; reports violations through chk.  kinds / catelems: of the columns ga, gb"""
    import dask
    import dask.dataframe as dd
    import spatialpandas as sp
    from spatialpandas.io import read_parquet, read_parquet_dask, to_parquet
    ids = [r[0] for r in rows0]
    els1 = [catelems[0][r[1] - 1] for r in rows0]
    els2 = [catelems[1][r[2] - 1] for r in rows0]
    obj = sp.GeoDataFrame({"id": np.array(ids, dtype="int64"), "ga": geom.make_array(kinds[0], els1), "gb": geom.make_array(kinds[1], els2)})
    right = sp.GeoDataFrame({"rid": np.arange(1, len(rcat_elems) + 1), "geometry": geom.make_array(rkind, rcat_elems)})
    active = 1
    kind = kinds[0]
    desc = [f"GeoDataFrame ga[{kinds[0]}] {[(i, geom.to_py(kinds[0], e)) for i, e in zip(ids, els1)]} gb[{kinds[1]}] {[geom.to_py(kinds[1], e) for e in els2]}"]
    form = "pandas"
    last_path = None
    nobs = 0
    for step, h in enumerate(hist):
        op, a, b, val = h["op"], h["a"], h["b"], h["val"]
        desc.append(f"{op}({a!r}{', ' + repr(b) if b else ''})")
        prev = obj
        try:
            if op == "iloc":
                obj = obj.iloc[a:b]
            elif op == "filter":
                obj = obj[obj["id"].isin(sorted(a))]
            elif op == "reverse":
                obj = obj.iloc[::-1]
            elif op == "set_geometry":
                obj = obj.set_geometry("ga" if a == 1 else "gb")
                active, kind = a, kinds[a - 1]
            elif op == "sort_desc":
                obj = obj.sort_values("id", ascending=False)
            elif op == "concat_rotate":
                obj = pd.concat([obj.iloc[a:], obj.iloc[:a]])
            elif op == "copy":
                obj = obj.copy()
            elif op == "pickle":
                obj = pickle.loads(pickle.dumps(obj))
            elif op == "persist":
                obj = obj.persist()
            elif op == "repartition":
                obj = obj.repartition(npartitions=1)        # (Dask cannot always split further: only merging is replayed)
            elif op == "cx_select":
                obj = obj.cx[c04.axis_arg(a[0]), c04.axis_arg(a[1])]
            elif op == "intersects_bounds":
                m = obj.geometry.intersects_bounds(tuple(float(v) for v in a))
                idc = obj["id"]
                if form != "pandas":
                    m, idc = m.compute(), idc.compute()
                got = set(int(i) for i, h in zip(idc, m) if h)
                nobs += 1
                if got != set(val):
                    bad(chk, desc, f"intersects_bounds true for rows {sorted(got)}, the model says {sorted(val)}", op, kind)
                    return nobs
            elif op == "sindex_intersects":
                pos = obj.geometry.array.sindex.intersects(tuple(float(v) for v in a))
                got = sorted(int(obj["id"].iloc[int(k)]) for k in pos)
                nobs += 1
                if got != sorted(val):
                    bad(chk, desc, f"sindex.intersects returns rows {got}, the model says {sorted(val)}", op, kind)
                    return nobs
            elif op == "measure":
                ar, ln, idc = obj.geometry.area, obj.geometry.length, obj["id"]
                if form != "pandas":
                    ar, ln, idc = ar.compute(), ln.compute(), idc.compute()
                gotm = {int(i): (float(x), float(y)) for i, x, y in zip(idc, ar, ln)}
                nobs += 1
                for rid, area2, sqlens in val:
                    roots = [math.isqrt(q) if math.isqrt(q) ** 2 == q else None for q in sqlens]
                    wl = float(sum(roots)) if all(r is not None for r in roots) else math.fsum(math.sqrt(q) for q in sqlens)
                    ga, gl = gotm.get(int(rid), (None, None))
                    if ga is None or ga != area2 / 2.0 or abs(gl - wl) > 1e-12 * max(1.0, abs(wl)):
                        bad(chk, desc, f"area / length of row {rid}: {ga} / {gl}, the model says {area2 / 2.0} / {wl}", op, kind)
                        return nobs
            elif op == "read_bounds":
                box = tuple(float(v) for v in a)
                sub = read_parquet_dask(last_path, geometry="ga" if active == 1 else "gb", bounds=box)
                got = set(int(i) for i in sub.compute()["id"]) if sub.npartitions else set()
                allids = set(int(i) for i in obj["id"].compute())
                nobs += 1
                if not (set(val) <= got <= allids):
                    bad(chk, desc, f"read_parquet_dask(bounds={box}) holds rows {sorted(got)}; it must contain the intersecting rows {sorted(val)} and only stored rows {sorted(allids)}", op, kind)
                    return nobs
                hit = set(int(i) for i in sub.cx[box[0]:box[2], box[1]:box[3]].compute()["id"]) if got else set()
                if hit != set(val):
                    bad(chk, desc, f"read_parquet_dask(bounds={box}).cx[box] selects {sorted(hit)}, the model says {sorted(val)}", op, kind)
                    return nobs
            elif op == "build_sindex":
                obj.build_sindex(page_size=a)
            elif op == "from_pandas":
                obj = dd.from_pandas(obj, npartitions=a)
                form = "dask"
            elif op == "compute":
                obj = obj.compute()
                form = "pandas"
            elif op == "pack_partitions":
                try:
                    obj = obj.pack_partitions(npartitions=a, p=6)
                    obj.compute()
                except Exception:  # noqa: BLE001
                    return nobs            # Dask cannot split rows sharing one Hilbert distance: nothing is claimed
            elif op == "parquet_roundtrip":
                path = os.path.join(tmp, f"{tag}_{step}.parq")
                if form == "pandas":
                    to_parquet(obj, path)
                    obj = read_parquet(path)
                else:
                    obj.to_parquet(path)
                    obj = read_parquet_dask(path)
                    form = "dataset"
                    last_path = path
                active, kind = 1, kinds[0]          # a re-read frame starts with the first geometry column active
            elif op == "pack_partitions_to_parquet":
                path = os.path.join(tmp, f"{tag}_{step}.parq")
                try:
                    obj = obj.pack_partitions_to_parquet(path, npartitions=a, p=6, _retry_args=dict(stop_max_attempt_number=2, wait_fixed=1))
                except Exception as ex:  # noqa: BLE001
                    chk.notes["world_pack_to_parquet_raised"] = chk.notes.get("world_pack_to_parquet_raised", 0) + 1
                    return nobs
                form = "dataset"
                last_path = path
                active, kind = 1, kinds[0]
            elif op == "ids":
                got = set(int(i) for i in (obj["id"].compute() if form != "pandas" else obj["id"]))
                nobs += 1
                if got != set(val):
                    bad(chk, desc, f"holds rows {sorted(got)}, the model says {sorted(val)}", op, kind)
                    return nobs
            elif op == "cx":
                res = obj.cx[c04.axis_arg(a[0]), c04.axis_arg(a[1])]
                if form != "pandas":
                    res = res.compute()
                got = set(int(i) for i in res["id"])
                nobs += 1
                if got != set(val):
                    bad(chk, desc, f"selects rows {sorted(got)}, the model says {sorted(val)}", op, kind)
                    return nobs
            elif op == "total_bounds":
                tb = obj.geometry.total_bounds if form != "pandas" else obj.geometry.array.total_bounds
                got = [float(v) for v in tb]
                want = [fl(v) for v in val]
                nobs += 1
                if not all((math.isnan(x) and math.isnan(y)) or x == y for x, y in zip(got, want)):
                    bad(chk, desc, f"total_bounds {got}, the model says {want}", op, kind)
                    return nobs
            elif op == "bounds":
                bd = obj.geometry.bounds
                idc = obj["id"]
                if form != "pandas":
                    bd, idc = bd.compute(), idc.compute()
                got = sorted((int(i), tuple("nan" if math.isnan(v) else float(v) for v in row)) for i, row in zip(idc, bd.values))
                want = sorted((int(p[0]), tuple("nan" if v == geom.NAN else float(v) for v in p[1])) for p in val)
                nobs += 1
                if got != want:
                    bad(chk, desc, f"bounds {got}, the model says {want}", op, kind)
                    return nobs
            elif op == "sjoin":
                res = sp.sjoin(obj, right, how=a)
                if form != "pandas":
                    res = res.compute()
                def nn(v):
                    return 0 if (v is None or (isinstance(v, float) and math.isnan(v)) or v is pd.NA) else int(v)
                got = sorted((nn(l), nn(r)) for l, r in zip(res["id"], res["rid"]))
                want = sorted((int(p[0]), int(p[1])) for p in val)
                nobs += 1
                if got != want:
                    bad(chk, desc, f"sjoin pairs {got}, the model says {want}", op, kind)
                    return nobs
            if obj is not prev and form != "pandas":
                obj.compute()           # lazy graphs: make an error surface at the step that built the failing graph
        except Exception as ex:  # noqa: BLE001
            import traceback
            if isinstance(ex, IndexError) and "out-of-bounds" in str(ex) and hasattr(prev, "npartitions") and dask_partitions_bug(prev):
                # the pinned Dask mis-optimises `.partitions[...]` (which cx / cx_partitions must use) over a frame filtered twice:
                # prev.compute() works, prev.partitions[all].compute() raises - plain Dask frames do the same (DESIGN 9)
                chk.notes["world_dask_partitions_bug"] = chk.notes.get("world_dask_partitions_bug", 0) + 1
                return nobs
            if isinstance(ex, AssertionError) and "dask_expr/_repartition.py" in traceback.format_exc() and any(x["op"] == "pack_partitions" for x in hist[:step]):
                # Dask's optimizer pushed a later row filter below pack_partitions' set_index; the filtered rows share one Hilbert
                # distance and Dask cannot split them into the requested partitions (the case C09 excludes, surfacing lazily)
                chk.notes["world_dask_cannot_split"] = chk.notes.get("world_dask_cannot_split", 0) + 1
                return nobs
            bad(chk, desc, f"raises {type(ex).__name__}: {ex}\n" + traceback.format_exc()[-600:], op + "-raises", kind)
            return nobs
    return nobs


def dask_partitions_bug(frame):
    """witness that an IndexError comes from Dask itself: the frame computes, but selecting ALL of its partitions does not"""
    try:
        frame.compute()
    except Exception:  # noqa: BLE001
        return False
    try:
        frame.partitions[list(range(frame.npartitions))].compute()
    except IndexError:
        return True
    except Exception:  # noqa: BLE001
        return False
    return False


def bad(chk, desc, why, op, kind):
    chk.violation(f"world|{kind}|{op}|{why[:50]}", "cross-feature history (World.tla): " + " ; ".join(desc) + f"\n  {why}", "# " + " ; ".join(desc),
                  ctx=dict(site="world." + op, kind=kind))


OMIT = 999999


def enc(v):
    v = float(v)
    return geom.NAN if math.isnan(v) else int(v)


def drive(kinds, catelems, rkind, rcat_elems, rng, n, steps, tmp, tag, notes):
    """code -> spec: a random history on real objects; returns {"rows": ..., "ev": [...]} for Trace_World.
    The driver mirrors only the enabling conditions of World's actions (form, ordered, indexed, row count), never the values."""
    import dask.dataframe as dd
    import spatialpandas as sp
    from spatialpandas.io import read_parquet, read_parquet_dask, to_parquet
    rows0 = [[i + 1, rng.randrange(len(catelems[0])) + 1, rng.randrange(len(catelems[1])) + 1] for i in range(n)]
    obj = sp.GeoDataFrame({"id": np.array([r[0] for r in rows0], dtype="int64"),
                           "ga": geom.make_array(kinds[0], [catelems[0][r[1] - 1] for r in rows0]),
                           "gb": geom.make_array(kinds[1], [catelems[1][r[2] - 1] for r in rows0])})
    right = sp.GeoDataFrame({"rid": np.arange(1, len(rcat_elems) + 1), "geometry": geom.make_array(rkind, rcat_elems)})
    form, ordered, indexed, active, last_path = "pandas", True, False, 1, None
    ev = []

    def axis():
        r = rng.random()
        if r < 0.15:
            v = rng.randrange(-1, 6)
            return [v, v, 1]
        lo = OMIT if rng.random() < 0.2 else rng.randrange(-1, 6)
        hi = OMIT if rng.random() < 0.2 else rng.randrange(-1, 6)
        return [lo, hi, 0]

    def box():
        x0, y0 = rng.randrange(-1, 5), rng.randrange(-1, 5)
        return [x0, y0, x0 + rng.randrange(1, 4), y0 + rng.randrange(1, 4)]

    for step in range(steps):
        pandas = form == "pandas"
        nrows = len(obj) if pandas else len(obj.compute())
        kind = kinds[active - 1]
        cands = ["ids", "total_bounds", "bounds", "cx", "cx", "intersects_bounds", "intersects_bounds", "measure", "filter", "cx_select"]
        if pandas:
            cands += ["sort_desc", "copy", "pickle", "set_geometry"] + (["parquet_roundtrip"] + ["from_pandas"] * 3 if nrows >= 1 else [])
            cands += ["sindex_intersects"] * 2 if nrows >= 1 else []
            if ordered and nrows >= 2:
                cands += ["iloc", "reverse", "concat_rotate"]
            if not indexed:
                cands += ["build_sindex"]
        else:
            cands += ["compute", "persist", "repartition"]
            if form == "dask":
                cands += ["set_geometry", "parquet_roundtrip"] if nrows >= 1 else []
                if nrows >= 2:
                    cands += ["pack_partitions", "pack_partitions_to_parquet"]
            if form == "dataset":
                cands += ["read_bounds"] * 2
        if kind == "point" and form in ("pandas", "dask"):
            cands += ["sjoin"]
        op = rng.choice(cands)
        a, b, val = 0, 0, []
        prev = obj
        try:
            if op == "iloc":
                a = rng.randrange(0, nrows)
                b = rng.randrange(a + 1, nrows + 1)
                if a == 0 and b == nrows:
                    b -= 1
                obj = obj.iloc[a:b]
                indexed = False
            elif op == "filter":
                a = sorted(rng.sample(range(1, n + 1), rng.randrange(1, n + 1)))
                obj = obj[obj["id"].isin(a)]
                indexed = False
                form = "dask" if form == "dataset" else form
            elif op == "reverse":
                obj = obj.iloc[::-1]
                indexed = False
            elif op == "sort_desc":
                obj = obj.sort_values("id", ascending=False)
                indexed, ordered = False, True
            elif op == "concat_rotate":
                a = rng.randrange(1, nrows)
                obj = pd.concat([obj.iloc[a:], obj.iloc[:a]])
                indexed = False
            elif op == "copy":
                obj = obj.copy()
            elif op == "pickle":
                obj = pickle.loads(pickle.dumps(obj))
            elif op == "persist":
                obj = obj.persist()
            elif op == "repartition":
                obj = obj.repartition(npartitions=1)
            elif op == "set_geometry":
                a = 3 - active
                obj = obj.set_geometry("ga" if a == 1 else "gb")
                active, indexed = a, False
            elif op == "build_sindex":
                a = rng.choice([1, 2, 3])
                obj.build_sindex(page_size=a)
                indexed = True
            elif op == "from_pandas":
                a = rng.choice([1, 2, 3, 4])
                obj = dd.from_pandas(obj, npartitions=a)
                form, indexed, ordered = "dask", False, False
            elif op == "compute":
                obj = obj.compute()
                form = "pandas"
            elif op == "pack_partitions":
                a = rng.choice([1, 2, 3])
                try:
                    obj = obj.pack_partitions(npartitions=a, p=rng.choice([4, 6, 10]))
                    obj.compute()
                except Exception:  # noqa: BLE001
                    notes["driver_pack_raised"] = notes.get("driver_pack_raised", 0) + 1
                    break
                ordered = False
            elif op == "parquet_roundtrip":
                path = os.path.join(tmp, f"{tag}_{step}.parq")
                if pandas:
                    to_parquet(obj, path)
                    obj = read_parquet(path)
                else:
                    obj.to_parquet(path)
                    obj = read_parquet_dask(path)
                    form, last_path = "dataset", path
                active = 1
            elif op == "pack_partitions_to_parquet":
                a = rng.choice([1, 2, 3, 5])
                path = os.path.join(tmp, f"{tag}_{step}.parq")
                try:
                    obj = obj.pack_partitions_to_parquet(path, npartitions=a, p=rng.choice([4, 6]), _retry_args=dict(stop_max_attempt_number=2, wait_fixed=1))
                except Exception:  # noqa: BLE001
                    notes["driver_pack_raised"] = notes.get("driver_pack_raised", 0) + 1
                    break
                form, last_path, active, ordered = "dataset", path, 1, False
            elif op == "cx_select":
                a = [axis(), axis()]
                res = obj.cx[c04.axis_arg(a[0]), c04.axis_arg(a[1])]
                if len(res if pandas else res.compute()) == 0:
                    continue                      # World only selects non-empty results (an empty one is an observation, below)
                obj = res
                indexed = False
                form = "dask" if form == "dataset" else form
            elif op == "ids":
                val = sorted(int(i) for i in (obj["id"] if pandas else obj["id"].compute()))
            elif op == "total_bounds":
                tb = obj.geometry.array.total_bounds if pandas else obj.geometry.total_bounds
                val = [enc(v) for v in tb]
            elif op == "bounds":
                bd, idc = obj.geometry.bounds, obj["id"]
                if not pandas:
                    bd, idc = bd.compute(), idc.compute()
                val = [[int(i), [enc(v) for v in row]] for i, row in zip(idc, bd.values)]
            elif op == "cx":
                a = [axis(), axis()]
                res = obj.cx[c04.axis_arg(a[0]), c04.axis_arg(a[1])]
                val = sorted(int(i) for i in (res if pandas else res.compute())["id"])
            elif op == "intersects_bounds":
                a = box()
                m, idc = obj.geometry.intersects_bounds(tuple(float(v) for v in a)), obj["id"]
                if not pandas:
                    m, idc = m.compute(), idc.compute()
                val = sorted(int(i) for i, h in zip(idc, m) if h)
            elif op == "sindex_intersects":
                a = box()
                pos = obj.geometry.array.sindex.intersects(tuple(float(v) for v in a))
                val = sorted(int(obj["id"].iloc[int(k)]) for k in pos)
            elif op == "measure":
                ar, na, idc = obj.geometry.area, obj.geometry.isna(), obj["id"]
                if not pandas:
                    ar, na, idc = ar.compute(), na.compute(), idc.compute()
                val = [[int(i), int(round(2 * float(x)))] for i, x, m in zip(idc, ar, na) if not m]
                if any(abs(2 * float(x) - round(2 * float(x))) > 0 for x, m in zip(ar, na) if not m):
                    val = [[0, -1]]               # a non-integral doubled area on integer coordinates can never match
            elif op == "sjoin":
                a = rng.choice(["inner", "left"])
                res = sp.sjoin(obj, right, how=a)
                if not pandas:
                    res = res.compute()
                def nn(v):
                    return 0 if (v is None or (isinstance(v, float) and math.isnan(v)) or v is pd.NA) else int(v)
                val = sorted([nn(x), nn(y)] for x, y in zip(res["id"], res["rid"]))
            elif op == "read_bounds":
                a = box()
                bx = tuple(float(v) for v in a)
                sub = read_parquet_dask(last_path, geometry="ga" if active == 1 else "gb", bounds=bx)
                got = set(int(i) for i in sub.compute()["id"]) if sub.npartitions else set()
                val = sorted(int(i) for i in sub.cx[bx[0]:bx[2], bx[1]:bx[3]].compute()["id"]) if got else []
                allids = set(int(i) for i in obj["id"].compute())
                if not got <= allids:
                    val = [-1]                    # rows that are not stored can never match
            if obj is not prev and form != "pandas":
                obj.compute()
        except Exception as ex:  # noqa: BLE001
            import traceback
            tb = traceback.format_exc()
            if (isinstance(ex, IndexError) and "out-of-bounds" in str(ex) and hasattr(prev, "npartitions") and dask_partitions_bug(prev)) or \
                    (isinstance(ex, AssertionError) and "dask_expr/_repartition.py" in tb):
                notes["driver_dask_quirk"] = notes.get("driver_dask_quirk", 0) + 1
                break
            ev.append(dict(op="RAISED", a=0, b=0, val=[], what=f"{op}({a}) raises {type(ex).__name__}: {ex}"[:400]))
            break
        ev.append(dict(op=op, a=a, b=b, val=val))
    return dict(rows=rows0, ev=ev)


def drive_stage(chk, quick, seed):
    """code -> spec: random driver histories judged by Trace_World; returns the number of histories"""
    import dask
    import json
    from .tlaval import iter_dump
    cats = c04.catalogues()
    tmp = tempfile.mkdtemp(prefix="worldt-", dir=os.environ.get("TMPDIR") or "/var/tmp")
    rng = __import__("random").Random(seed * 7919 + 13)
    total = 0
    tally = {}
    try:
        with dask.config.set(scheduler="synchronous"):
            for ci, (kind, cat, kind2, cat2, rkind, rcat) in enumerate(CONFIGS[:2] if quick else CONFIGS):
                notes = {}
                traces = [drive((kind, kind2), (cats[cat], cats[cat2]), rkind, cats[rcat], rng, rng.choice([3, 5, 8]), 10 if quick else 14, tmp, f"d{ci}_{k}", notes)
                          for k in range(25 if quick else 120)]
                for k_, v_ in notes.items():
                    chk.notes[k_] = chk.notes.get(k_, 0) + v_
                wd = scratch("world-trace")
                path = os.path.join(wd, "traces.json")
                with open(path, "w") as f:
                    json.dump(traces, f)
                r = run_tlc("Trace_World", cfg=dict(spec="TSpec", constants=dict(Kind1=kind, Elems1="<- " + cat, Kind2=kind2, Elems2="<- " + cat2, RKind=rkind,
                                                                                 RElems="<- " + rcat, N=8, MaxOps=99, Bias="none"), check_deadlock=False),
                            env={"TRACE_FILE": path}, workers=4, dump=True, timeout=3000)
                chk.add_tlc(r)
                best = {}
                for st in iter_dump(r.dump):
                    t = st["tid"]
                    if st["verdict"] == "accepted":
                        best[t] = ("accepted", st["l"])
                    elif best.get(t, ("", 0))[0] != "accepted" and st["l"] >= best.get(t, ("", 0))[1]:
                        best[t] = ("running", st["l"])
                for t, tr in enumerate(traces, start=1):
                    total += 1
                    v, pos = best.get(t, ("missing", 0))
                    for e in tr["ev"]:
                        tally[e["op"]] = tally.get(e["op"], 0) + 1
                    rows_txt = [(r_[0], geom.to_py(kind, cats[cat][r_[1] - 1]), geom.to_py(kind2, cats[cat2][r_[2] - 1])) for r_ in tr["rows"]]
                    if v != "accepted":
                        e = tr["ev"][pos - 1] if 0 < pos <= len(tr["ev"]) else None
                        why = (e or {}).get("what") or f"event {pos} {e} is not what World allows after the first {pos - 1} events"
                        chk.violation(f"worldtrace|{kind}|{(e or {}).get('op')}|{str(why)[:40]}",
                                      f"driver history rejected by Trace_World: rows (id, ga[{kind}], gb[{kind2}]) {rows_txt}\n  events {[(x['op'], x['a'], x['b']) for x in tr['ev'][:pos]]}\n  {why}"[:3000],
                                      "# " + repr(tr)[:3000], ctx=dict(site="world.trace." + str((e or {}).get("op")), kind=kind))
                    elif len(tr["ev"]) >= 5:
                        chk.nontrivial_case(hash(repr(tr)))
    finally:
        shutil.rmtree(tmp, ignore_errors=True)
    chk.notes["world_driver_histories"] = total
    chk.notes["world_driver_events_per_action"] = dict(sorted(tally.items()))
    chk.traces += total
    return total


def stage(chk, quick, seed):
    """run the World simulation stage inside a check; returns number of behaviours replayed"""
    import dask
    cats = c04.catalogues()
    tmp = tempfile.mkdtemp(prefix="world-", dir=os.environ.get("TMPDIR") or "/var/tmp")
    total = 0
    nobs = 0
    optally = {}
    try:
        with dask.config.set(scheduler="synchronous"):
            for ci, (kind, cat, kind2, cat2, rkind, rcat) in enumerate(CONFIGS[:2] if quick else CONFIGS):
                r, behaviours = simulate(kind, cat, kind2, cat2, rkind, rcat, num=8 if quick else 200, depth=8 if quick else 12, seed=seed * 31 + ci + 1)
                chk.add_tlc(r)
                r2, more = simulate(kind, cat, kind2, cat2, rkind, rcat, num=6 if quick else 200, depth=8 if quick else 12, seed=seed * 37 + ci + 5, bias="dask")
                chk.add_tlc(r2)
                behaviours += more
                for bi, (rows0, hist, last) in enumerate(behaviours):
                    total += 1
                    for h in hist:
                        optally[h["op"]] = optally.get(h["op"], 0) + 1
                    nobs += replay(chk, (kind, kind2), (cats[cat], cats[cat2]), rkind, cats[rcat], rows0, hist, tmp, f"w{ci}_{bi}")
                    if bi == 3 and ci == 0:
                        chk.sample({"world_history": [dict(op=h["op"], a=repr(h["a"]), val=repr(h["val"])) for h in hist]})
    finally:
        shutil.rmtree(tmp, ignore_errors=True)
    chk.notes["world_behaviours"] = total
    chk.notes["world_steps_per_action"] = dict(sorted(optally.items()))
    chk.notes["world_observations"] = nobs
    chk.traces += total
    return total
