#!/bin/sh
# MANIFEST.setup_cmd: offline; syntax-check every TLA+ module of /verif/spec with SANY.
cd "$(dirname "$0")" || exit 2
export PYTHONPATH="$(pwd)"
exec /venv/bin/python - <<'PY'
import glob, os, sys
from harness.tlc import sany
bad = 0
for f in sorted(glob.glob(os.path.join(os.getcwd(), "spec", "*.tla"))):
    m = os.path.basename(f)[:-4]
    ok, out = sany(m)
    if not ok:
        bad += 1
        print("SANY FAILED:", m)
        print(out[-2000:])
print("setup: %d modules checked, %d failed" % (len(glob.glob(os.path.join(os.getcwd(), "spec", "*.tla"))), bad))
sys.exit(1 if bad else 0)
PY
